"""C12 — prior passing keeps every inferred value on its own parameter.

C01 programs x inferred vectors of any sign / magnitude x passing modes (configured widths, absolute,
relative, no limits, bounded uniform, with_limits, partial replacement); the new real model is
compared with the old one (structure, paths, order, count, sharing, constants) and the prior at
every path with the descriptor derived for the value inferred for that path (Lean `derive` and an
independent plain-Python oracle)."""
import json
import math

import numpy as np

from common import f2h, h2f, close, VERIF
import gen_comp
import extract_comp as X
import c01
import c08
import c12_cfg
import c12_routes

import autofit as af
from autofit.mapper.model import ModelInstance
from autofit.mapper.prior.abstract import Prior
from autofit.mapper.prior.tuple_prior import TuplePrior
from autofit.mapper.prior.width_modifier import WidthModifier, RelativeWidthModifier, AbsoluteWidthModifier
from autofit.mapper.prior_model.abstract import Limits
from autofit.mapper.prior_model.prior_model import Model
from autofit.mapper.prior_model.collection import Collection
from autofit.mapper.prior.arithmetic.compound import CompoundPrior, ModifiedPrior
from autoconf.exc import ConfigException

RULE = (
    "C01 programs (nesting, shared priors, constants incl. constants held directly by collections, tuples, "
    "arithmetic, arrays, priors held directly by list-built collections) x inferred vectors (negative, zero, tiny, "
    "huge, ordinary) x {configured widths, a, r, no_limits, uniform +-b, with_limits, replacing a random subset}; "
    "non-trivial = >=2 parameters and a negative/zero inferred value or sharing or non-default mode"
)


def inferred(rng, n):
    out = []
    for _ in range(n):
        r = rng.random()
        if r < 0.25:
            out.append(-abs(rng.uniform(1e-3, 50)))
        elif r < 0.33:
            out.append(0.0)
        elif r < 0.40:
            # tiny, huge, and the edges of the float format: subnormal, smallest normal, largest finite, -0.0
            out.append(rng.choice([1e-300, -1e-300, 1e300, -1e300, 1e-12, -1e12, 5e-324, -5e-324, 2.2250738585072014e-308,
                                   1.7976931348623157e308, -1.7976931348623157e308, -0.0]))
        else:
            out.append(rng.uniform(-5, 60))
    return out


def candidate_configs(model, prior):
    """(width modifier, gaussian limits) configured for each place of the prior: the class that holds
    the place and the attribute name (the name of the collection entry when the name is a position)"""
    out = []
    for path, p in model.path_priors_tuples:
        if p.id != prior.id:  # (copies of a component hold other objects of equal id: one parameter)
            continue
        owner, name, cls = model, None, ModelInstance
        chain = [model]
        for k in path[:-1]:
            owner = getattr(owner, k) if not isinstance(k, int) else owner[k]
            chain.append(owner)
        name = str(path[-1])
        holder = chain[-1]
        if isinstance(holder, TuplePrior) and len(chain) >= 2:
            holder = chain[-2]
        if isinstance(holder, Model):
            cls = holder.cls
        elif isinstance(holder, (CompoundPrior, ModifiedPrior)):
            cls = float
        elif isinstance(holder, af.Array):
            cls = np.ndarray
        else:
            cls = ModelInstance
        if name.isdigit() and len(path) > 1:
            name = str(path[-2])
        try:
            wm = WidthModifier.for_class_and_attribute_name(cls, name)
        except Exception:
            wm = RelativeWidthModifier(0.5)
        try:
            gl = Limits.for_class_and_attributes_name(cls, name)
            gl = (float(gl[0]), float(gl[1]))
        except Exception:
            gl = None
        out.append((wm, gl))
    return out


def width_of(wm, x):
    if isinstance(wm, RelativeWidthModifier):
        return abs(wm.value * x)
    return wm.value


def desc(p):
    d = X.prior_node(p)
    return {k: d.get(k) for k in ("kind", "lo", "hi", "mean", "sigma")}


def same_float(a, b, ulps=0):
    return close(h2f(a), h2f(b), ulps=ulps) if a is not None and b is not None else a == b


def one_case(ctx, prog, label="gen", explicit_wm=None):
    rng = ctx.rng
    try:
        H = gen_comp.run_program(prog)
    except Exception as e:
        ctx.hit("program-rejected:" + type(e).__name__)
        return
    model = H["root"]
    n = model.prior_count
    if n == 0:
        return
    # width modifiers given explicitly to some priors (they override the configuration of that prior only)
    if explicit_wm is None:
        explicit_wm = []
        if rng.random() < 0.3:
            for j in rng.sample(range(n), rng.randint(1, min(n, 2))):
                explicit_wm.append([j, rng.choice(["abs", "rel"]), rng.choice([0.25, 2.0, 7.5])])
    for j, kind, val in explicit_wm:
        if j < n:
            list(model.priors_ordered_by_id)[j].width_modifier = (AbsoluteWidthModifier if kind == "abs" else RelativeWidthModifier)(val)
    if explicit_wm:
        ctx.hit("explicit-width-modifier")
    comp = X.node_of(model)
    feats = c01.features(comp)
    priors = list(model.priors_ordered_by_id)
    old_paths = [tuple(map(str, p)) for p in model.paths]
    old_shape = c08.shape_of(model)
    olds = [desc(p) for p in priors]
    xs = inferred(rng, n)
    modes = [
        {"k": "means"},
        {"k": "means", "a": rng.choice([0.5, 2.0, 1e-3])},
        {"k": "means", "r": rng.choice([0.5, 0.1, 2.0])},
        {"k": "means", "no_limits": True},
        {"k": "uniform", "b": rng.choice([0.5, 3.0])},
        {"k": "with_limits"},
        {"k": "replacing"},
        # the same through a Result (vector stored by path in a sample and read back)
        {"k": "means", "via": "result"},
        {"k": "means", "a": rng.choice([0.5, 2.0, 1e-3]), "via": "result"},
        {"k": "means", "r": rng.choice([0.5, 0.1, 2.0]), "via": "result"},
        {"k": "uniform", "b": rng.choice([0.5, 3.0]), "via": "result"},
    ]
    if ctx.tier != "quick" or label != "gen" or ctx.rng.random() < 0.5:
        c12_routes.kwargs_case(ctx, model, comp, xs, {"program": prog, "mode": {"k": "kwargs"}, "inferred": xs, "label": label, "explicit_wm": explicit_wm})
    if ctx.tier == "quick":
        modes = [modes[0]] + rng.sample(modes[1:], 3)
    if label != "replay" and rng.random() < 0.35:
        result_wrappers(ctx, prog, model, [max(min(x, 1e12), -1e12) for x in xs], label)
    for mode in modes:
        case = {"program": prog, "mode": mode, "inferred": xs, "label": label, "explicit_wm": explicit_wm}
        nontrivial = n >= 2 and (any(x <= 0 for x in xs) or feats["places"] > n or mode != {"k": "means"})
        ctx.case({"comp": comp, "mode": mode, "xs": [f2h(x) for x in xs]}, nontrivial=nontrivial,
                 sample={"program": gen_comp.program_text(prog)[-300:], "mode": mode, "inferred": xs[:6]})
        ctx.hit("mode:" + mode["k"] + ("+" + "".join(k for k in ("a", "r", "no_limits") if k in mode) if mode["k"] == "means" else ""))
        if mode.get("via"):
            ctx.hit("route:" + mode["via"] + ":" + mode["k"])
        lims = None
        repl = None
        try:
            if mode["k"] == "means":
                new = c12_routes.passed_means(model, xs, mode)
            elif mode["k"] == "uniform":
                xs_u = [max(min(x, 1e12), -1e12) for x in xs]  # x - b < x + b must be representable
                case["inferred"] = xs_u
                new = c12_routes.passed_uniform(model, xs_u, mode)
            elif mode["k"] == "with_limits":
                lims = []
                for p, x in zip(priors, xs):
                    L, U = p.lower_limit, p.upper_limit
                    if math.isfinite(L) and math.isfinite(U) and type(p).__name__ == "UniformPrior" and rng.random() < 0.35:
                        # limits that tighten nothing for this parameter (its own limits, or none at all)
                        lims.append((L, U) if rng.random() < 0.5 else (float("-inf"), float("inf")))
                    elif math.isfinite(L) and math.isfinite(U):
                        lims.append((L + 0.1 * (U - L), U - 0.2 * (U - L)))
                    else:
                        x = max(min(x, 1e12), -1e12)
                        w = abs(x) * 0.1 + 0.5
                        lims.append((max(x - w, L) if math.isfinite(L) else x - w, x + w if not math.isfinite(U) else min(x + w, U)))
                        if lims[-1][0] >= lims[-1][1]:
                            lims[-1] = (L if math.isfinite(L) else U - 2.0, L + 1.0 if math.isfinite(L) else U)
                new = model.with_limits(lims)
            else:
                chosen = [p for p in priors if rng.random() < 0.5] or [priors[0]]
                repl = {p: af.GaussianPrior(mean=float(j), sigma=1.0 + j) for j, p in enumerate(chosen)}
                new = model.replacing(repl)
        except Exception as e:
            cls = classify_raise(model, mode, xs, e)
            ctx.fail(cls, f"prior passing ({mode['k']}) raised {type(e).__name__} for finite inferred values", case, str(e)[:200])
            continue

        # ---- structure: same paths in the same order, count, constants, sharing
        try:
            new_paths = [tuple(map(str, p)) for p in new.paths]
            new_shape = c08.shape_of(new)
        except Exception as e:
            ctx.fail("C12-unusable", "model built by prior passing cannot be queried", case, f"{type(e).__name__}: {e}"[:200])
            continue
        if new.prior_count != n:
            ctx.fail("C12-count", "prior passing changed the number of free parameters", case, {"before": n, "after": new.prior_count})
            continue
        for k, what in (("paths", "paths"), ("consts", "fixed values"), ("partition", "sharing of parameters")):
            if old_shape[k] != new_shape[k]:
                ctx.fail(f"C12-{k}", f"prior passing changed the model's {what}", case,
                         {"before": [x for x in old_shape[k] if x not in new_shape[k]][:3], "after": [x for x in new_shape[k] if x not in old_shape[k]][:3]})
        if mode["k"] != "replacing" and [p for p in old_paths] != new_paths and c08.raw_paths_of(model) == c08.raw_paths_of(new):
            ctx.fail("C12-order", "prior passing changed the parameter order", case, {"before": old_paths[:6], "after": new_paths[:6]})

        # ---- the prior at each path is the one derived from the value inferred for that path
        rank = {p.id: j for j, p in enumerate(priors)}
        new_by_path = {tuple(map(str, path)): pr for path, pr in new.path_priors_tuples}
        exp_by_rank = {}
        xs_eff = case["inferred"]
        for j, (p, x) in enumerate(zip(priors, xs_eff)):
            exp_by_rank[j] = expected(model, p, x, mode, lims[j] if lims else None, repl)
        for path, p in model.path_priors_tuples:
            key = tuple(map(str, path))
            got = new_by_path.get(key)
            if got is None:
                continue  # reported by the paths check
            j = rank[p.id]
            g = desc(got)
            ok = any(desc_equal(g, e) for e in exp_by_rank[j])
            if not ok:
                ctx.fail("C12-wrong-prior", f"prior at path {'.'.join(key)} is not the one derived from the value inferred for that path", case,
                         {"path": key, "got": readable(g), "expected_one_of": [readable(e) for e in exp_by_rank[j]][:3], "inferred": xs[j]})
            if g["kind"] in ("Gaussian", "LogGaussian") and g.get("sigma") is not None and not (h2f(g["sigma"]) >= 0):
                ctx.fail("C12-negative-width", "prior passing produced a negative width", case, readable(g))
            if mode["k"] in ("means", "uniform") and got.id != p.id:
                ctx.fail("C12-id-not-kept", "the new prior does not keep the id of the parameter it replaces", case, {"path": key})

        # ---- correspondence with the Lean model
        if mode["k"] == "replacing":
            continue
        cfgs = []
        skip = False
        for p in priors:
            cands = candidate_configs(model, p)
            wm = p.width_modifier or (cands[0][0] if cands else RelativeWidthModifier(0.5))
            if len(cands) > 1:
                skip = skip or (mode["k"] == "means" and "a" not in mode and "r" not in mode) or (mode["k"] == "means" and not mode.get("no_limits"))
            gl = cands[0][1] if cands else None
            if len({c[1] for c in cands}) > 1 and mode["k"] == "means" and not mode.get("no_limits"):
                skip = True
            c = {"relative": isinstance(wm, RelativeWidthModifier), "value": f2h(wm.value)}
            if gl is not None:
                c["glo"], c["ghi"] = f2h(gl[0]), f2h(gl[1])
            cfgs.append(c)
        if skip and CHAIN is None:
            ctx.hit("correspondence-skipped-ambiguous-config")
            continue
        if skip:
            ctx.hit("shared-prior-differently-configured-places")
        wire_mode = {"k": mode["k"]}
        for k in ("a", "r", "b"):
            if k in mode:
                wire_mode[k] = f2h(mode[k])
        if "no_limits" in mode:
            wire_mode["no_limits"] = True
        pairs = [[f2h(l[0]), f2h(l[1])] for l in lims] if lims else [[f2h(x), f2h(0.0)] for x in xs_eff]
        # the configuration of every parameter is looked up by the model itself (generated tables + look-up
        # order of the library), from the class and attribute name of the parameter's place
        places = []
        for p in priors:
            cp = c12_cfg.candidate_places(model, p)
            places.append(c12_cfg.place_wire(*(cp[0] if cp else (ModelInstance, "")), p))
        req = {"p": "C12", "comp": comp, "mode": wire_mode, "olds": olds, "xs": pairs}
        if mode.get("via") == "result":
            req["via_kwargs"] = True
        if CHAIN is not None:
            # class and attribute name of every parameter are derived by the model from the composition
            req["classes"], req["owns"], req["chain"] = c12_cfg.class_table(), [pl.get("own") for pl in places], CHAIN
        else:
            req["cfgs"] = cfgs
        ans = ctx.lean.ask(req)
        if "driver_error" in ans or ans.get("key_error"):
            ctx.disagree("driver", case, None, ans)
            continue
        if CHAIN is not None:
            lib_classes = c12_cfg.library_classes(model, priors)
            if [k[0] for k in ans["place_keys"]] != lib_classes:
                ctx.disagree("C12.place.class", case, lib_classes[:8], [k[0] for k in ans["place_keys"]][:8])
                continue
        if not ans.get("cfg_ok", True):
            ctx.disagree("C12.config-readable", case, "passing succeeded", "model: a configuration entry read here is malformed")
        new_priors = list(new.priors_ordered_by_id)
        if len(new_priors) == len(ans["new"]):
            for j, (np_, md) in enumerate(zip(new_priors, ans["new"])):
                g = desc(np_)
                if not desc_equal(g, md, relevant_only=True):
                    ctx.disagree(f"C12.derive.{mode['k']}", case | {"param": j}, readable(g), readable(md))
                    break
        if [list(p) for p in new_paths] != ans["paths"] and c08.raw_paths_of(model) == c08.raw_paths_of(new):
            ctx.disagree("C12.paths", case, new_paths[:6], ans["paths"][:6])


def result_wrappers(ctx, prog, model, xs, label):
    """Result.model_absolute / model_relative / model_bounded on ONE result object, asked one after the other with
    the same number: each answer is the model a fresh result gives for that question alone"""
    rng = ctx.rng

    def make_result():
        sample = af.Sample.from_lists(model=model, parameter_lists=[list(xs)], log_likelihood_list=[-1.0],
                                      log_prior_list=[0.0], weight_list=[1.0])[0]
        summary = af.SamplesSummary(max_log_likelihood_sample=sample, model=model, median_pdf_sample=sample)
        return af.Result(samples_summary=summary)

    def ask(res, how, w):
        new = {"abs": res.model_absolute, "rel": res.model_relative, "bounded": res.model_bounded}[how](w)
        return [(tuple(map(str, path)), readable(desc(pr))) for path, pr in new.path_priors_tuples]

    w = rng.choice([0.5, 2.0, 0.25])
    questions = [("abs", w), ("rel", w), ("bounded", w)]
    rng.shuffle(questions)
    questions = questions + questions[:1]
    case = {"program": prog, "inferred": list(xs), "label": label, "result_questions": questions}
    try:
        shared = make_result()
        for how, w_ in questions:
            alone = ask(make_result(), how, w_)
            got = ask(shared, how, w_)
            ctx.hit("result-wrapper:" + how)
            if got != alone:
                diff = [(a, b) for a, b in zip(got, alone) if a != b][:2]
                ctx.fail("C12-result-answer-depends-on-earlier-question",
                         f"result.model_{how} on a result that was asked for another kind of passed model before differs from the same "
                         "question put to a fresh result", case, {"asked": how, "differs": diff})
                return
    except Exception as e:  # noqa: whether passing itself succeeds is checked by the modes above
        ctx.hit("result-wrapper-raised:" + type(e).__name__)


def second_pass(ctx):
    """a prior that came out of prior passing and is then placed at another attribute is passed on like a fresh prior of
    the same kind placed there: its width comes from the configuration of the place it is at NOW"""
    import contextlib, io
    import vlib
    rng = ctx.rng
    for cls, src, dst in ((vlib.P2, "a", "b"), (vlib.P2, "b", "a"), (vlib.P3, "a", "c"), (vlib.P3, "c", "b")):
        x1 = [rng.choice([-1, 1]) * rng.uniform(0.5, 20.0) for _ in range(3)]
        x2 = [rng.uniform(0.5, 20.0) for _ in range(3)]
        case = {"label": "second-pass", "cls": cls.__name__, "src": src, "dst": dst, "first": x1, "second": x2}
        try:
            with contextlib.redirect_stdout(io.StringIO()):
                m1 = af.Model(cls)
                r1 = m1.mapper_from_prior_means(x1[: m1.prior_count])
                passed = getattr(r1, src)
                m2, m3 = af.Model(cls), af.Model(cls)
                setattr(m2, dst, passed)
                setattr(m3, dst, af.GaussianPrior(mean=passed.mean, sigma=passed.sigma, lower_limit=passed.lower_limit, upper_limit=passed.upper_limit))
                val = dict(zip("abc", x2))  # the same inferred value for the same attribute in both models
                r2 = m2.mapper_from_prior_means([val[str(p_[-1])] for p_ in m2.paths])
                r3 = m3.mapper_from_prior_means([val[str(p_[-1])] for p_ in m3.paths])
            got = {".".join(map(str, p)): readable(desc(pr)) for p, pr in r2.path_priors_tuples}
            want = {".".join(map(str, p)): readable(desc(pr)) for p, pr in r3.path_priors_tuples}
        except Exception as e:  # noqa
            ctx.hit("second-pass-raised:" + type(e).__name__)
            continue
        ctx.hit("second-pass")
        if got != want:
            ctx.fail("C12-passed-prior-carries-history", "a prior produced by prior passing and placed at another attribute is passed on with another "
                     "width than a fresh prior of the same kind placed there", case, {"got": got, "want": want})
            return


def classify_raise(model, mode, xs, e):
    if mode["k"] == "with_limits" and any(type(p).__name__ == "LogGaussianPrior" for p in model.priors):
        return "C12-with-limits-loggaussian"
    return f"C12-raises-{mode['k']}"


def readable(d):
    return {k: (h2f(v) if isinstance(v, str) and len(v) == 16 else v) for k, v in d.items()}


def desc_equal(g, e, relevant_only=False):
    if g["kind"] != e["kind"]:
        return False
    keys = ["lo", "hi"] + (["mean", "sigma"] if g["kind"] in ("Gaussian", "LogGaussian") else [])
    for k in keys:
        if g.get(k) is None or e.get(k) is None:
            if g.get(k) != e.get(k):
                return False
            continue
        if not close(h2f(g[k]) + 0.0, h2f(e[k]) + 0.0, ulps=2):
            return False
    return True


def expected(model, p, x, mode, lim, repl):
    """plain-Python reading of the property: candidate descriptors for the new prior of parameter p"""
    old = desc(p)
    out = []
    if mode["k"] == "means":
        cands = candidate_configs(model, p) or [(RelativeWidthModifier(0.5), None)]
        if len(cands) > 1:
            # a prior shared between differently configured places: the library resolves class and
            # attribute name from different places, falling back to the defaults (DESIGN §6)
            wms = [c[0] for c in cands] + [RelativeWidthModifier(0.5)]
            gls = [c[1] for c in cands] + [None]
            cands = [(w, g) for w in wms for g in gls]
        for wm, gl in cands:
            wm_eff = p.width_modifier or wm
            if "a" in mode:
                w = mode["a"]
            elif "r" in mode:
                w = abs(mode["r"] * x)
            else:
                w = width_of(wm_eff, x)
            if mode.get("no_limits"):
                lo, hi = float("-inf"), float("inf")
            elif gl is not None:
                lo, hi = gl
            else:
                lo, hi = p.lower_limit, p.upper_limit
            out.append({"kind": "Gaussian", "lo": f2h(lo), "hi": f2h(hi), "mean": f2h(x), "sigma": f2h(w)})
    elif mode["k"] == "uniform":
        out.append({"kind": "Uniform", "lo": f2h(x - mode["b"]), "hi": f2h(x + mode["b"]), "mean": None, "sigma": None})
    elif mode["k"] == "with_limits":
        lo, hi = lim
        if old["kind"] == "Gaussian":
            out.append({"kind": "Gaussian", "lo": f2h(float("-inf")), "hi": f2h(float("inf")), "mean": f2h((lo + hi) / 2), "sigma": f2h(hi - lo)})
        else:
            out.append(dict(old, lo=f2h(max(lo, p.lower_limit)), hi=f2h(min(hi, p.upper_limit))))
    else:
        if p in repl:
            out.append(desc(repl[p]))
        else:
            out.append(old)
    return out


CHAIN = None  # names of the generated configuration tables along the library's chain (set by setup_config)
SCRATCH = None


def setup_config(ctx):
    """tie the generated configuration tables to what the library loaded; from then on the model looks the
    configuration of every place up itself"""
    global CHAIN, SCRATCH
    from autoconf import conf
    SCRATCH = conf.instance.paths[0]
    CHAIN = c12_cfg.check_tables(ctx)


def run(ctx):
    ctx.rule = RULE
    ctx.assumptions = [
        "width modifiers / gaussian limits come from harness/config/priors/vlib.yaml (both modifier kinds, finite and infinite limits) and are "
        "looked up by the Lean model in tables generated from the files the library loaded; the property oracle lets a shared prior whose places "
        "are configured differently take the configuration of any of its places, the correspondence pins the library's choice exactly",
        "Result.model / model_absolute / model_relative / model_bounded are exercised through a SamplesSummary built from path-keyed samples "
        "(median and maximum-likelihood vectors given different values); copy_with_fixed_priors / take_attributes are not exercised",
    ]
    setup_config(ctx)
    for f in sorted((VERIF / "corpus" / "C12").glob("*.json")):
        c = json.loads(f.read_text())
        one_case(ctx, c["program"], label=f.name)
    second_pass(ctx)
    c12_cfg.lookup_cases(ctx, SCRATCH, ctx.n(400, 2000))
    for _ in range(ctx.n(160, 1000)):
        prog = gen_comp.gen_program(ctx.rng, allow_pow=False)
        one_case(ctx, prog)


def replay(ctx, payload):
    case = payload.get("case") or payload.get("disagreements", [{}])[0].get("case")
    setup_config(ctx)
    if "lookup" in case:
        return c12_cfg.replay_lookup(ctx, SCRATCH, case["lookup"])
    if case.get("label") == "second-pass":
        return second_pass(ctx)
    if "result_questions" in case:
        model = gen_comp.run_program(case["program"])["root"]
        return result_wrappers(ctx, case["program"], model, case["inferred"], "replay")
    one_case(ctx, case["program"], label="replay", explicit_wm=case.get("explicit_wm"))
