#!/usr/bin/env python
"""Translator part of C11: regenerate lean/AFModel/Generated/C11.lean from the repository's *current* source
(run by harness/run.py before every build; a committed copy is kept so that a fresh clone builds; harness/c11.py
recomputes the same rows on every run and compares them with the compiled table).

  searchSigTable : every non-linear search class exported by autofit: the chain of constructors a call
                   `cls(**arguments)` runs through (named parameters, parameters without a default, `**kwargs`,
                   the keywords its `super().__init__(...)` call gives explicitly, whether `**kwargs` is passed on -
                   read from the constructor's AST), `__identifier_fields__`, and which of the candidate keys of
                   `to_dict` a default instance does not carry as an attribute
  writerFiles    : the files the writer API (`DirectoryPaths`, the combined analysis) produces for a probe fit, call by call
  readerLookups  : the files / patterns each reader accessor (`SearchOutput`, `GridSearchOutput`) asks the file system
                   for on that probe fit (traced), and the marker files `Aggregator.from_directory` recognises (probed)
A name that cannot be written as a Lean string literal makes this script fail: the tie is then reported broken."""
import ast
import builtins
import inspect
import logging
import os
import shutil
import sys
import textwrap
import warnings
from pathlib import Path

warnings.filterwarnings("ignore")
logging.disable(logging.CRITICAL)
HERE = Path(__file__).resolve().parent
sys.path.insert(0, str(HERE))

import common  # noqa: E402

OUT = HERE.parent / "lean" / "AFModel" / "Generated" / "C11.lean"


def q(s):
    assert isinstance(s, str) and s.isascii() and '"' not in s and "\\" not in s and "\n" not in s, s
    return '"' + s + '"'


def lst(xs):
    return "[" + ", ".join(q(x) for x in xs) + "]"


def b(x):
    return "true" if x else "false"


# ---------------------------------------------------------------------------------------------
# constructor chains


def own_init(k):
    return "__init__" in k.__dict__ and k is not object


def sig_of(k):
    """one constructor: parameters, required ones, **kwargs, and its call of the next constructor"""
    sp = inspect.getfullargspec(k.__init__)
    params = list(sp.args[1:]) + list(sp.kwonlyargs)
    nd = len(sp.defaults or ())
    required = list(sp.args[1:][: len(sp.args[1:]) - nd]) + [a for a in sp.kwonlyargs if a not in (sp.kwonlydefaults or {})]
    tree = ast.parse(textwrap.dedent(inspect.getsource(k.__init__)))
    call = None
    for n in ast.walk(tree):
        if isinstance(n, ast.Call) and isinstance(n.func, ast.Attribute) and n.func.attr == "__init__":
            v = n.func.value
            if isinstance(v, ast.Call) and isinstance(v.func, ast.Name) and v.func.id == "super":
                call = (n, 0)
                break
            if isinstance(v, ast.Name) and v.id != "self":
                call = (n, 1)  # Base.__init__(self, ...)
                break
    sig = {"cls": k.__name__, "params": params, "required": required, "varkw": sp.varkw is not None,
           "explicit": [], "forwards": False, "dropped": [], "calls": call is not None, "npos": 0}
    if call is not None:
        n, skip = call
        # keys taken out of **kwargs before they are passed on: kwargs.pop("k", ...) / del kwargs["k"]
        for m in ast.walk(tree):
            if getattr(m, "lineno", 10 ** 9) >= n.lineno:
                continue
            if (isinstance(m, ast.Call) and isinstance(m.func, ast.Attribute) and m.func.attr == "pop" and isinstance(m.func.value, ast.Name)
                    and m.func.value.id == sp.varkw and m.args and isinstance(m.args[0], ast.Constant) and isinstance(m.args[0].value, str)):
                sig["dropped"].append(m.args[0].value)
            if isinstance(m, ast.Delete):
                for tg in m.targets:
                    if (isinstance(tg, ast.Subscript) and isinstance(tg.value, ast.Name) and tg.value.id == sp.varkw
                            and isinstance(tg.slice, ast.Constant) and isinstance(tg.slice.value, str)):
                        sig["dropped"].append(tg.slice.value)
        sig["npos"] = max(0, len(n.args) - skip)
        sig["explicit"] = [kw.arg for kw in n.keywords if kw.arg is not None]
        sig["forwards"] = any(kw.arg is None and isinstance(kw.value, ast.Name) and kw.value.id == sp.varkw for kw in n.keywords)
    return sig


def chain_of(cls):
    """the constructors `cls(**kw)` runs through, outermost first (single inheritance along the MRO)"""
    chain = []
    for k in cls.__mro__:
        if not own_init(k):
            continue
        chain.append(sig_of(k))
        if not chain[-1]["calls"]:
            break
    # positional arguments of a super call name the first parameters of the next constructor
    for i, s in enumerate(chain):
        if s["npos"] and i + 1 < len(chain):
            s["explicit"] = chain[i + 1]["params"][: s["npos"]] + s["explicit"]
    last = chain[-1] if chain else None
    ends_at_object = bool(last and last["calls"])  # the last constructor still calls on: object.__init__
    return [{k: v for k, v in s.items() if k not in ("calls", "npos")} for s in chain], ends_at_object


def candidates_of(cls):
    """autoconf.dictable.get_arguments, re-stated: constructor parameters, plus the bases' when there is **kwargs"""
    sp = inspect.getfullargspec(cls.__init__)
    args = set(sp.args[1:])
    if sp.varkw:
        for base in cls.__bases__:
            if base is object:
                continue
            args |= candidates_of(base)
    return args


def search_rows():
    common.setup_repo()
    import autofit as af
    from autofit.non_linear.search.abstract_search import NonLinearSearch

    rows = []
    for name in sorted(dir(af)):
        cls = getattr(af, name)
        if not (inspect.isclass(cls) and issubclass(cls, NonLinearSearch)) or cls is NonLinearSearch or cls.__name__ != name:
            continue
        chain, _ = chain_of(cls)
        idf = [str(f) for f in cls.__identifier_fields__]
        cand = sorted(candidates_of(cls))
        absent = []
        try:
            inst = cls()
            for k in cand + [f for f in idf if f not in cand]:
                if not hasattr(inst, k) or inspect.ismethod(getattr(inst, k)):
                    absent.append(k)
            absent += [str(f) for f in getattr(inst, "__exclude_fields__", ()) or () if str(f) not in absent]
        except Exception as e:  # a search that cannot be constructed persists nothing
            raise RuntimeError(f"{name}() raises {type(e).__name__}: {e}")
        rows.append({"cls": name, "chain": chain, "idf": idf, "candidates": cand, "absent": sorted(set(absent))})
    return rows


# ---------------------------------------------------------------------------------------------
# the writer's files and the reader's lookups, on a probe fit


def listing(root):
    out = set()
    if not Path(root).exists():
        return out
    for d, _, fs in os.walk(root):
        for f in fs:
            out.add(Path(d, f).relative_to(root).as_posix())
    return out


def probe_fit():
    """run the writer API on a scratch directory; returns (directory, child directory, [(call, file)])"""
    common.setup_repo()
    import numpy as np
    import autofit as af
    from autofit.non_linear.samples import Sample
    from autofit.non_linear.samples.samples import Samples
    import c11lib

    model = af.Model(af.ex.Gaussian)
    search = c11lib.ScriptedSearch(name="probe_w", path_prefix=f"tables_c11_{os.getpid()}")
    paths = search.paths
    paths.model = model
    paths.search = search
    root = Path(paths.output_path)
    shutil.rmtree(root.parent.parent, ignore_errors=True)
    steps = []

    def step(label, fn, base=root):
        before = listing(base)
        fn()
        for f in sorted(listing(base) - before):
            steps.append((label, f))

    sl = Sample.from_lists(model=model, parameter_lists=[[1.0, 2.0, 3.0], [1.5, 2.5, 3.5]], log_likelihood_list=[-1.0, -2.0],
                           log_prior_list=[0.0, 0.0], weight_list=[1.0, 1.0])
    samples = Samples(model=model, sample_list=sl, samples_info={"total_iterations": 2, "time": None})
    step("save_all", lambda: paths.save_all(info={"k": 1}))
    step("save_samples", lambda: paths.save_samples(samples))
    step("save_latent_samples", lambda: paths.save_latent_samples(samples))
    step("save_samples_summary", lambda: paths.save_samples_summary(samples.summary()))
    step("save_json", lambda: paths.save_json("uj", {"a": 1}))
    step("save_json_prefix", lambda: paths.save_json("uj", {"a": 1}, prefix="sub"))
    step("save_object", lambda: paths.save_object("uo", [1, 2]))
    step("save_array", lambda: paths.save_array("ua", np.array([[1.0, 2.0]])))
    try:
        from astropy.io import fits
        step("save_fits", lambda: paths.save_fits("uf", fits.PrimaryHDU(np.zeros((2, 2)))))
    except ImportError:
        pass
    step("completed", lambda: paths.completed())
    combined = c11lib.Quad(attrs={"ca": 1}) + c11lib.Quad(attrs={"ca": 2})
    step("combined.save_attributes", lambda: combined.save_attributes(paths))
    step("save_unique_tag", lambda: paths.save_unique_tag(is_grid_search=True))
    child = paths.create_child(name="probe_cell", is_identifier_in_paths=False)
    croot = Path(child.output_path)
    step("child.save_parent_identifier", lambda: child.save_parent_identifier(), base=croot)
    return root, croot, steps


class Trace:
    """records what the reader asks the file system for, relative to `root`"""

    def __init__(self, root):
        self.root = Path(root)
        self.seen = []
        self.saved = {}

    def rel(self, p):
        try:
            return Path(os.fspath(p)).resolve().relative_to(self.root.resolve()).as_posix()
        except Exception:
            return None

    def note(self, kind, p, pattern=None):
        r = self.rel(p)
        if r is None:
            return
        if pattern is not None:
            r = (r + "/" if r != "." else "") + pattern
        item = (kind, r)
        if item not in self.seen:
            self.seen.append(item)

    def __enter__(self):
        import io
        import pathlib
        t = self
        P = pathlib.Path
        self.saved = {"open": builtins.open, "ioopen": io.open, "exists": P.exists, "rglob": P.rglob, "glob": P.glob,
                      "popen": P.open, "ospexists": os.path.exists, "isfile": os.path.isfile}
        s = self.saved

        def _open(file, *a, **k):
            if isinstance(file, (str, os.PathLike)):
                t.note("file", file)
            return s["open"](file, *a, **k)

        def _popen(self_, *a, **k):
            t.note("file", self_)
            return s["popen"](self_, *a, **k)

        def _exists(self_, *a, **k):
            t.note("file", self_)
            return s["exists"](self_, *a, **k)

        def _ospexists(p):
            t.note("file", p)
            return s["ospexists"](p)

        def _isfile(p):
            t.note("file", p)
            return s["isfile"](p)

        def _rglob(self_, pattern, *a, **k):
            t.note("rglob", self_, pattern)
            return s["rglob"](self_, pattern, *a, **k)

        def _glob(self_, pattern, *a, **k):
            t.note("glob", self_, pattern)
            return s["glob"](self_, pattern, *a, **k)

        builtins.open = _open
        io.open = _open
        P.open = _popen
        P.exists = _exists
        P.rglob = _rglob
        P.glob = _glob
        os.path.exists = _ospexists
        os.path.isfile = _isfile
        return self

    def __exit__(self, *a):
        import io
        import pathlib
        s = self.saved
        builtins.open = s["open"]
        io.open = s["ioopen"]
        P = pathlib.Path
        P.open, P.exists, P.rglob, P.glob = s["popen"], s["exists"], s["rglob"], s["glob"]
        os.path.exists, os.path.isfile = s["ospexists"], s["isfile"]


# reader accessors traced one by one (what `Scraper._fits` / `_add_files_fit` / `_grid_searches` use)
CONSUMERS = ("is_complete", "parent_identifier", "search", "model", "info", "samples", "latent_samples", "jsons", "arrays",
             "pickles", "hdus", "child_analyses")


def reader_rows(root, croot):
    from autofit.aggregator.search_output import SearchOutput, GridSearchOutput
    from autofit.aggregator.aggregator import Aggregator as Classic

    rows = []
    for c in CONSUMERS:
        so = SearchOutput(root if c != "parent_identifier" else croot)
        with Trace(so.directory) as t:
            try:
                getattr(so, c)
            except Exception:
                pass
        for kind, r in t.seen:
            if kind == "file" and r in (".", "files"):
                continue
            rows.append((c, kind, r))
    g = GridSearchOutput(root)
    with Trace(root) as t:
        try:
            g.unique_tag
        except Exception:
            pass
    rows += [("grid.unique_tag", kind, r) for kind, r in t.seen]
    # the marker files of from_directory, probed: which single file makes a directory a search output / a grid search
    tmp = root.parent.parent / "markers"
    names = sorted({f for f in listing(root) if "/" not in f})
    for f in names:
        d = tmp / ("d_" + f.strip("."))
        d.mkdir(parents=True, exist_ok=True)
        (d / f).write_text("")
    import contextlib
    import io
    with contextlib.redirect_stdout(io.StringIO()):
        agg = Classic.from_directory(tmp, completed_only=False)
    for so in agg.search_outputs:
        rows.append(("from_directory.fit", "file", sorted(listing(so.directory))[0]))
    for go in agg.grid_search_outputs:
        rows.append(("from_directory.grid", "file", sorted(listing(go.directory))[0]))
    shutil.rmtree(tmp, ignore_errors=True)
    return rows


def file_rows():
    root, croot, steps = probe_fit()
    try:
        readers = reader_rows(root, croot)
    finally:
        shutil.rmtree(root.parent.parent, ignore_errors=True)
    return steps, readers


# ---------------------------------------------------------------------------------------------


def split_ref(rel):
    """'files/sub/x.json' -> (['files', 'sub'], 'x', '.json') with pathlib's stem / suffix"""
    p = Path(rel)
    return list(p.parts[:-1]), p.stem, p.suffix


def fileref(rel):
    d, stem, ext = split_ref(rel)
    return f"⟨{lst(d)}, {q(stem)}, {q(ext)}⟩"


def lookup(kind, rel):
    """(kind, FileRef literal) of one traced lookup; patterns: '<dir>/*<ext>' for rglob, '<dir>/*' for glob"""
    if kind == "file":
        return "file", fileref(rel)
    d, last = list(Path(rel).parts[:-1]), Path(rel).parts[-1]
    if kind == "rglob" and last.startswith("*.") and "*" not in last[1:] and "?" not in last and "[" not in last:
        return "rglob", f"⟨{lst(d)}, {q('')}, {q(last[1:])}⟩"
    if kind == "glob" and last == "*":
        return "glob", f"⟨{lst(d)}, {q('')}, {q('')}⟩"
    return "other", f"⟨{lst(d)}, {q(last)}, {q('')}⟩"


def lean_sig(s):
    return (f"⟨{q(s['cls'])}, {lst(s['params'])},\n      {lst(s['required'])}, {b(s['varkw'])}, {lst(s['explicit'])}, {b(s['forwards'])}, {lst(s['dropped'])}⟩")


def render(searches, writers, readers):
    lines = ["-- generated by harness/tables_c11.py from the repository's working tree; do not edit", "",
             "namespace AF.Generated.C11", "",
             "/-- one constructor: named parameters, those without a default, whether it takes `**kwargs`, the keywords",
             "its call of the next constructor gives explicitly, whether it passes `**kwargs` on, the keys it pops from them before -/",
             "structure Sig where", "  cls : String", "  params : List String", "  required : List String", "  varkw : Bool",
             "  explicit : List String", "  forwards : Bool", "  dropped : List String", "  deriving Repr, DecidableEq", "",
             "/-- a search class: its constructor chain (outermost first), `__identifier_fields__`, the candidate keys of",
             "`to_dict` (`get_arguments`), and the candidates / identifier fields a default instance does not carry -/",
             "structure SearchSig where", "  cls : String", "  chain : List Sig", "  idf : List String", "  candidates : List String",
             "  absent : List String", "  deriving Repr, DecidableEq", "",
             "def searchSigTable : List SearchSig := ["]
    lines.append(",\n".join(
        f"  ⟨{q(r['cls'])}, [\n    " + ",\n    ".join(lean_sig(s) for s in r["chain"]) + f"],\n    {lst(r['idf'])},\n    {lst(r['candidates'])},\n    {lst(r['absent'])}⟩"
        for r in searches) + "]")
    lines += ["", "/-- a file below a fit's directory: folders, then the name split as `Path.stem` / `Path.suffix` -/",
              "structure FileRef where", "  dir : List String", "  stem : String", "  ext : String", "  deriving Repr, DecidableEq", "",
              "/-- a file the writer call `call` produced for the probe fit -/",
              "structure WFile where", "  call : String", "  file : FileRef", "  deriving Repr, DecidableEq", "",
              "/-- what the reader accessor `consumer` asks the file system for: `file` (exactly this one), `rglob` (every file of",
              "suffix `ext` at any depth below `dir`), `glob` (every entry of `dir`), `other` (a pattern this translator does not know) -/",
              "structure Lookup where", "  consumer : String", "  kind : String", "  file : FileRef", "  deriving Repr, DecidableEq", "",
              "def writerFiles : List WFile := ["]
    lines.append(",\n".join(f"  ⟨{q(a)}, {fileref(f)}⟩" for a, f in writers) + "]")
    lines += ["", "def readerLookups : List Lookup := ["]
    lines.append(",\n".join(f"  ⟨{q(c)}, {q(k2)}, {fr}⟩" for c, (k2, fr) in ((c, lookup(k, r)) for c, k, r in readers)) + "]")
    lines += ["", "end AF.Generated.C11", ""]
    return "\n".join(lines)


def main():
    searches = search_rows()
    writers, readers = file_rows()
    text = render(searches, writers, readers)
    if not OUT.exists() or OUT.read_text() != text:
        OUT.write_text(text)
    print(f"wrote {OUT} ({len(searches)} searches, {len(writers)} writer files, {len(readers)} reader lookups)")


if __name__ == "__main__":
    main()
