"""C09 — samples survive persistence and reload identically.

Generated inputs: a *program* composing a model (gen_comp: nested models/collections, priors held
directly by the top level mixed with nested ones, shared priors, tuples incl. 12-tuples, arrays,
list-built collections) and a sample set (any doubles incl. 0.0, -0.0, subnormals, 1e+-300, 17-digit
values, inf, duplicates, tied likelihoods; built by Sample.from_lists, or by explicit Sample(...)
calls with permuted key order / plain-string keys for one-entry paths).

Routes on the REAL code (all through the public persistence API):
  dir        DirectoryPaths.save_samples -> .samples ; save_samples_summary -> load_samples_summary
  db         DatabasePaths.save_samples (all samples / minimised) + commit -> fresh session:
             Fit.samples, DatabasePaths.samples, database Aggregator.values("samples")
  fit        a scripted NonLinearSearch whose samples are the generated set: search.fit(...) twice
             (second run = completed fit re-run: result.samples, result.samples_summary), then the
             directory aggregator (SearchOutput.samples / samples_summary) and the scrape into a
             database (Fit.samples)

oracle (independent of the model): the loaded samples give, for every sample in the same order, the
generated value for every unique parameter path (parameter_lists and values_for_path), the same
log-likelihood, log-prior, weight; hence the same best fit (vector and instance), medians and errors;
loading raises nothing. Ground truth is the generated table of numbers itself.

correspondence: Lean `AF.SamplesIO` (shapeOf, mkSample/fromVector, paramList, saveCsv/loadCsv,
summaryRoundtrip, toEfficient/ofEfficient, bestFit) vs the real model queries, the real Sample
objects, the real samples.csv cells (header text incl. padding, cells parsed by float()), the real
reloaded Sample objects (key forms, order, values bit-exact), the real EfficientSamples arrays.
"""
import contextlib
import csv
import io
import json
import math
import shutil
import struct
from pathlib import Path

import numpy as np

from common import f2h, h2f, close, VERIF, scratch_dir
import gen_comp
import extract_comp as X

import autofit as af
from autoconf import conf
from autofit import database as db
from autofit.database.sqlalchemy_ import sa
from autofit.non_linear.paths.directory import DirectoryPaths
from autofit.non_linear.paths.database import DatabasePaths
from autofit.non_linear.samples import Sample, SamplesPDF
from autofit.non_linear.samples.efficient import EfficientSamples
from autofit.non_linear.search.abstract_search import NonLinearSearch
from autofit.aggregator.aggregator import Aggregator as DirAggregator

RULE = (
    "gen_comp programs (nested models/collections, top-level priors mixed with nested ones, shared priors, "
    "tuples, arrays, list-built collections) x sample sets of 1..8 samples (0.0, -0.0, subnormal, 1e+-300, "
    "17-digit, inf, duplicates, ties; from_lists / explicit permuted keys / string keys) x routes "
    "{directory table+summary, database rows (all / minimised), scripted fit re-run + directory aggregator + scrape}; "
    "non-trivial = >=2 parameters, >=2 samples and (mixed path depths or shared prior or tuple/array member)"
)

RESERVED = ("log_likelihood", "log_prior", "log_posterior", "weight", "kwargs", "self")

# ---------------------------------------------------------------------------------------------
# scripted search: the real fit machinery with a prescribed sample set


class ScriptedSearch(NonLinearSearch):
    __identifier_fields__ = ()

    def __init__(self, script=None, **kw):
        super().__init__(**kw)
        self.script = script

    @property
    def config_type(self):
        return conf.instance["non_linear"]["c09scripted"]

    @property
    def config_dict_search(self):
        return {}

    def check_model(self, model):
        pass

    def plot_results(self, samples):
        pass

    def _fit(self, model, analysis):
        return "scripted"

    def samples_from(self, model, search_internal=None):
        return self.script(model)


class ConstAnalysis(af.Analysis):
    def log_likelihood_function(self, instance):
        return 1.0


# ---------------------------------------------------------------------------------------------
# generators

SPECIAL = [
    0.0, -0.0, 5e-324, -5e-324, 2.2250738585072014e-308, 1e-300, -1e-300, 1e300, -1e300,
    1.7976931348623157e308, -1.7976931348623157e308, 0.1 + 0.2, 1 / 3, 1e16, 123456789.12345679,
    1.0, -1.0, 2.0, 0.5, 1e-5, 1e22, 9007199254740993.0, 0.1, 100.0,
]


def gen_float(rng, allow_inf=False, allow_nan=False):
    r = rng.random()
    if r < 0.30:
        return rng.choice(SPECIAL)
    if r < 0.55:
        return rng.uniform(-10, 10)
    if r < 0.70:
        # any finite double: random bit pattern
        while True:
            x = struct.unpack(">d", struct.pack(">Q", rng.getrandbits(64)))[0]
            if x == x and not math.isinf(x):
                return x
    if r < 0.80:
        return float(rng.randint(-3, 3))
    if r < 0.85 and allow_inf:
        return rng.choice([math.inf, -math.inf])
    if r < 0.87 and allow_nan:
        return math.nan
    return rng.uniform(-1, 1) * 10 ** rng.randint(-12, 12)


def gen_samples(rng, n_params, wild):
    """JSON-able sample-set description (floats as hex)"""
    n = rng.choice([1, 1, 2, 2, 3, 3, 4, 5, 8])
    rows = []
    for i in range(n):
        if rows and rng.random() < 0.15:
            v = list(rows[rng.randrange(len(rows))]["v"])  # duplicate sample
        else:
            v = [f2h(gen_float(rng, allow_inf=wild, allow_nan=False)) for _ in range(n_params)]
        if rows and rng.random() < 0.25:
            ll = rows[rng.randrange(len(rows))]["ll"]  # tie
        else:
            ll = f2h(gen_float(rng, allow_inf=wild) if rng.random() < 0.5 else rng.uniform(-1e3, 10))
        lp = f2h(gen_float(rng) if rng.random() < 0.4 else rng.uniform(-50, 5))
        rows.append({"v": v, "ll": ll, "lp": lp})
    mode = rng.random()
    if mode < 0.6 or n == 0:
        ws = [rng.random() for _ in range(n)]
        tot = sum(ws) or 1.0
        ws = [w / tot for w in ws]
        if rng.random() < 0.3:
            ws[rng.randrange(n)] = 0.0
    elif mode < 0.8:
        ws = [1.0] + [0.0] * (n - 1)
        rng.shuffle(ws)
    else:
        ws = [abs(gen_float(rng)) for _ in range(n)]
    for r_, w in zip(rows, ws):
        r_["w"] = f2h(w)
    form = rng.choices(["lists", "perm", "strkeys"], weights=[6, 3, 2])[0]
    if form != "lists":
        for r_ in rows:
            perm = list(range(n_params))
            rng.shuffle(perm)
            r_["perm"] = perm
    return {"form": form, "rows": rows, "numpy": rng.random() < 0.15}


def wrap_program(rng, prog):
    """extra statements that put parameters directly into the top level / share them there"""
    prog = [dict(s) for s in prog]
    root = [s for s in prog if s["op"] == "root"][-1]["h"]
    prog = [s for s in prog if s["op"] != "root"]
    priors = [s["h"] for s in prog if s["op"] == "prior"]
    r = rng.random()
    kind = "none"
    if r < 0.30:
        kind = "top-prior"
        prog.append({"op": "prior", "h": "wp", "kind": "U", "args": [0.0, 1.0]})
        items = [("x", {"h": "wp"}), ("g", {"h": root})]
        if rng.random() < 0.5:
            items.reverse()
        prog.append({"op": "coll_kw", "h": "wroot", "items": dict(items)})
        root = "wroot"
    elif r < 0.45 and priors:
        kind = "shared-top"
        items = [("top", {"h": rng.choice(priors)}), ("g", {"h": root})]
        if rng.random() < 0.5:
            items.reverse()
        prog.append({"op": "coll_kw", "h": "wroot", "items": dict(items)})
        root = "wroot"
    elif r < 0.52:
        kind = "list-top"
        prog.append({"op": "prior", "h": "wp", "kind": "G", "args": [0.0, 1.0]})
        prog.append({"op": "coll_list", "h": "wroot", "items": [{"h": "wp"}, {"h": root}]})
        root = "wroot"
    elif r < 0.56:
        kind = "reserved"
        prog.append({"op": "prior", "h": "wp", "kind": "U", "args": [0.0, 1.0]})
        prog.append({"op": "coll_kw", "h": "wroot", "items": {rng.choice(RESERVED[:5]): {"h": "wp"}, "g": {"h": root}}})
        root = "wroot"
    prog.append({"op": "root", "h": root})
    return prog, kind


def gen_case(rng, routes=None):
    prog = gen_comp.gen_program(rng, allow_arith=False, allow_pow=False, max_priors=6)
    if rng.random() < 0.12:
        # a single flat component as the whole model (all columns at the top level: names route)
        g = gen_comp.Gen(rng, max_priors=4, allow_arith=False, allow_array=False, allow_pow=False)
        root = g.model(cls=rng.choice(["P1", "P2", "P3", "P3", "Mode"]))
        prog, wrap = g.prog + [{"op": "root", "h": root}], "flat-root"
    else:
        prog, wrap = wrap_program(rng, prog)
    try:
        model = gen_comp.run_program(prog)["root"]
        n = model.prior_count
    except Exception:
        return None
    if n == 0 or not isinstance(model, af.AbstractPriorModel):
        return None
    wild = rng.random() < 0.2
    return {"program": prog, "wrap": wrap, "samples": gen_samples(rng, n, wild), "wild": wild,
            "routes": routes or ["dir", "db"]}


# ---------------------------------------------------------------------------------------------
# building the real objects


def num(h, numpy):
    x = h2f(h)
    return np.float64(x) if numpy else x


def build_samples(model, spec):
    """the real Samples object for a sample-set description"""
    rows = spec["rows"]
    npy = spec.get("numpy", False)
    if spec["form"] == "lists":
        sl = Sample.from_lists(
            model=model,
            parameter_lists=[[num(h, npy) for h in r["v"]] for r in rows],
            log_likelihood_list=[num(r["ll"], npy) for r in rows],
            log_prior_list=[num(r["lp"], npy) for r in rows],
            weight_list=[num(r["w"], npy) for r in rows],
        )
    else:
        paths = model.unique_prior_paths
        sl = []
        for r in rows:
            kw = {}
            for j in r["perm"]:
                key = tuple(paths[j])
                if spec["form"] == "strkeys" and len(key) == 1:
                    key = key[0]
                kw[key] = num(r["v"][j], npy)
            sl.append(Sample(log_likelihood=num(r["ll"], npy), log_prior=num(r["lp"], npy), weight=num(r["w"], npy), kwargs=kw))
    return SamplesPDF(model=model, sample_list=sl, samples_info={"total_iterations": len(rows), "time": 1.0})


def wire_samples(model, spec):
    """the same sample set for the Lean driver"""
    rows = spec["rows"]
    if spec["form"] == "lists":
        return {"vectors": [{"v": r["v"], "ll": r["ll"], "lp": r["lp"], "w": r["w"]} for r in rows]}
    paths = [list(map(str, p)) for p in model.unique_prior_paths]
    out = []
    for r in rows:
        kw = []
        for j in r["perm"]:
            key = paths[j]
            if spec["form"] == "strkeys" and len(key) == 1:
                key = key[0]
            kw.append([key, r["v"][j]])
        out.append({"ll": r["ll"], "lp": r["lp"], "w": r["w"], "kw": kw})
    return {"samples": out}


def canon_key(k):
    return [str(x) for x in k] if isinstance(k, tuple) else str(k)


def canon_sample(s):
    return {
        "ll": f2h(s.log_likelihood), "lp": f2h(s.log_prior), "w": f2h(s.weight),
        "kw": [[canon_key(k), f2h(v)] for k, v in s.kwargs.items()],
    }


def hexvec(v):
    return [f2h(x) for x in v]


def quiet(f, *a, **k):
    with contextlib.redirect_stdout(io.StringIO()):
        return f(*a, **k)


def dbg(*a):
    import os, sys

    if os.environ.get("VERIF_DEBUG"):
        print(*[str(x)[:300] for x in a], file=sys.stderr)


def attempt(f, *a, **k):
    try:
        return ("ok", quiet(f, *a, **k))
    except Exception as e:  # noqa
        return ("err", f"{type(e).__name__}: {str(e)[:160]}")


# ---------------------------------------------------------------------------------------------
# the oracle: ground truth is the generated table of numbers


def first_max(lls):
    """index of the first sample that is strictly greater than every earlier one and not beaten later"""
    best = None
    for i, x in enumerate(lls):
        if best is None or x > lls[best]:
            best = i
    return best


def own_best(chooser, samples):
    """row (index into samples.sample_list) of the sample `chooser` reports as its most likely one;
    which of several equally likely samples is reported is not this property's subject"""
    st, b = attempt(lambda: chooser.max_log_likelihood_sample)
    if st == "err" or b is None:
        return None
    for i, x in enumerate(samples.sample_list):
        if x is b:
            return i
    return None


def truth(model, spec, keep=None, best=None):
    rows = spec["rows"]
    idx = list(range(len(rows))) if keep is None else keep
    return {
        "params": [rows[i]["v"] for i in idx],
        "ll": [rows[i]["ll"] for i in idx],
        "lp": [rows[i]["lp"] for i in idx],
        "w": [rows[i]["w"] for i in idx],
        "best": idx.index(best) if best is not None and best in idx else None,
    }


def derived(samples):
    """medians and error estimates as the library computes them (None where it raises)"""
    out = {}
    for name, f in (
        ("median", lambda: samples.median_pdf(as_instance=False)),
        ("err1", lambda: [list(t) for t in samples.errors_at_sigma(sigma=1.0, as_instance=False)]),
        ("err3", lambda: [list(t) for t in samples.errors_at_sigma(sigma=3.0, as_instance=False)]),
        ("val1", lambda: [list(t) for t in samples.values_at_sigma(sigma=1.0, as_instance=False)]),
    ):
        st, v = attempt(f)
        out[name] = json.loads(json.dumps(v, default=float)) if st == "ok" else None
    return out


def flat(x):
    if isinstance(x, (list, tuple)):
        for y in x:
            yield from flat(y)
    else:
        yield x


def same_numbers(a, b, ulps=0):
    a, b = list(flat(a)), list(flat(b))
    return len(a) == len(b) and all(close(float(x), float(y), ulps=ulps) for x, y in zip(a, b))


def classify(model, case, what, route):
    ups = [tuple(map(str, p)) for p in model.unique_prior_paths]
    if any(len(p) == 1 and p[0] in RESERVED for p in ups):
        return "C09-reserved-column-name"
    depths = {len(p) == 1 for p in ups}
    if what in ("load-raises", "lookup-raises") and depths == {True, False}:
        return "C09-mixed-depth-keys"
    return f"C09-{route}-{what}"


def column_map(model, other):
    """for each parameter of `other` (in its vector order) the column of the persisted table, matched
    by path: a model that came back through model.json / the database may order its parameters
    differently (C08), the property speaks of values per path"""
    n = model.prior_count
    if other is model:
        return list(range(n))
    ups = [tuple(map(str, p)) for p in model.unique_prior_paths]
    out = []
    for paths in other.all_paths:
        ps = {tuple(map(str, p)) for p in paths}
        js = [j for j, u in enumerate(ups) if u in ps]
        if len(js) != 1:
            return None
        out.append(js[0])
    return out if sorted(out) == list(range(n)) else None


def permute(tr, perm):
    return dict(tr, params=[[row[j] for j in perm] for row in tr["params"]])


def check_loaded(ctx, model, case, route, loaded, tr, expect_derived=None, multiset=False):
    """the property sentence on one reloaded Samples object"""
    c = dict(case, route=route)
    tr0 = tr

    def fail(what, msg, detail):
        ctx.fail(classify(model, case, what, route.split(":")[0]), f"{route}: {msg}", c, detail)
        return False

    if loaded is None:
        return fail("missing", "no samples came back", None)
    perm = column_map(model, loaded.model)
    if perm is None:
        return fail("model", "the model attached to the reloaded samples does not have the persisted parameter paths", str(getattr(loaded.model, "paths", None))[:200])
    tr = permute(tr0, perm)
    st, pl = attempt(lambda: loaded.parameter_lists)
    if st == "err":
        return fail("lookup-raises", "parameter values of the reloaded samples cannot be looked up", pl)
    got = {
        "params": [hexvec(v) for v in pl],
        "ll": hexvec(loaded.log_likelihood_list),
        "lp": hexvec(loaded.log_prior_list),
        "w": hexvec(loaded.weight_list),
    }
    if multiset:
        key = lambda t: sorted(zip(t["params"], t["ll"], t["lp"], t["w"]))  # noqa
        if key(got) != key(tr):
            return fail("values", "the reloaded (minimised) samples differ from the persisted ones", {"got": got, "want": tr})
    else:
        for k in ("params", "ll", "lp", "w"):
            if got[k] != tr[k]:
                bad = [i for i, (x, y) in enumerate(zip(got[k], tr[k])) if x != y][:3]
                return fail(
                    "order" if sorted(map(str, got[k])) == sorted(map(str, tr[k])) else ("count" if len(got[k]) != len(tr[k]) else "values"),
                    f"{k} of the reloaded samples differ from the persisted ones", {"field": k, "first_bad_rows": bad, "got": [got[k][i] for i in bad], "want": [tr[k][i] for i in bad], "n_got": len(got[k]), "n_want": len(tr[k])})
    # per path
    ups = model.unique_prior_paths
    for j, p in enumerate(ups):
        st, vals = attempt(loaded.values_for_path, tuple(p))
        if st == "err":
            return fail("lookup-raises", f"values_for_path{tuple(p)} raises on the reloaded samples", vals)
        want = [r[j] for r in tr0["params"]]
        if (sorted(hexvec(vals)) != sorted(want)) if multiset else (hexvec(vals) != want):
            return fail("values", f"values_for_path{tuple(p)} differs after reload", {"got": hexvec(vals)[:4], "want": want[:4]})
    # nothing but the model's parameters came back as parameters
    known = {tuple(map(str, q)) for ps in loaded.model.all_paths for q in ps}
    known |= {(str(n),) for ns in loaded.model.all_names for n in ns} | {tuple(str(n).split(".")) for ns in loaded.model.all_names for n in ns}
    for i, smp in enumerate(loaded.sample_list):
        extra = [k for k in smp.kwargs if (tuple(map(str, k)) if isinstance(k, tuple) else (str(k),)) not in known]
        if extra:
            return fail("extra-parameter", f"reloaded sample {i} carries values for keys that are not parameters of the model", str(extra)[:200])
    if not tr["ll"]:
        return True
    # best fit
    lls = [h2f(x) for x in tr["ll"]]
    b = tr.get("best") if not multiset else first_max(lls)
    if b is not None and not any(x != x for x in lls):
        st, v = attempt(loaded.max_log_likelihood, as_instance=False)
        if st == "err":
            return fail("lookup-raises", "max_log_likelihood raises on the reloaded samples", v)
        if multiset:
            ok = hexvec(v) in [tr["params"][i] for i, x in enumerate(lls) if x == lls[b]]
        else:
            ok = hexvec(v) == tr["params"][b]
        if not ok:
            return fail("best-fit", "best-fit parameters differ after reload", {"got": hexvec(v), "want": tr["params"][b]})
        if not multiset:
            st, inst = attempt(loaded.max_log_likelihood)
            # (how a model reloaded from model.json / the database instantiates is C08's subject: the
            # expected instance is built by the model the samples carry, from the persisted numbers)
            st2, inst2 = attempt(loaded.model.instance_from_vector, [h2f(x) for x in tr["params"][b]], ignore_prior_limits=True)
            if st2 == "ok":
                if st == "err":
                    return fail("best-fit", "best-fit instance cannot be built after reload", inst)
                d = X.inst_diff(X.canon_inst(X.inst_of(inst)), X.canon_inst(X.inst_of(inst2)))
                if d is not None:
                    return fail("best-fit", "best-fit instance differs after reload", str(d)[:200])
            # the sample itself builds the same instance (used by the aggregator's per-sample generators)
            if st2 == "ok" and not any(getattr(m_, "_assertions", None) for m_ in [loaded.model]):
                st3, inst3 = attempt(loaded.sample_list[b].instance_for_model, loaded.model, ignore_assertions=True)
                if st3 == "err":
                    return fail("sample-instance", "the best reloaded sample cannot build its instance", inst3)
                d = X.inst_diff(X.canon_inst(X.inst_of(inst3)), X.canon_inst(X.inst_of(inst2)))
                if d is not None:
                    return fail("sample-instance", "the best reloaded sample builds a different instance", str(d)[:200])
    # medians and errors
    if expect_derived is not None and not multiset:
        got_d = derived(loaded)
        for k, want in expect_derived.items():
            if want is None:
                continue
            want = [want[j] for j in perm]
            if got_d[k] is None or not same_numbers(got_d[k], want, ulps=4):
                return fail("derived", f"{k} estimates differ after reload", {"got": got_d[k], "want": want})
    return True


def check_summary(ctx, model, case, route, summ, orig_summary, tr):
    c = dict(case, route=route)

    def fail(what, msg, detail):
        ctx.fail(classify(model, case, what, route.split(":")[0]), f"{route}: {msg}", c, detail)
        return False

    if summ is None:
        return fail("missing", "no summary came back", None)
    perm = column_map(model, summ.model)
    if perm is None:
        return fail("model", "the model attached to the reloaded summary does not have the persisted parameter paths", None)
    tr0, tr = tr, permute(tr, perm)
    lls = [h2f(x) for x in tr["ll"]]
    b = tr.get("best")
    if b is None or any(x != x for x in lls):
        return True
    s = summ.max_log_likelihood_sample
    if [f2h(s.log_likelihood), f2h(s.log_prior), f2h(s.weight)] != [tr["ll"][b], tr["lp"][b], tr["w"][b]]:
        return fail("values", "likelihood/prior/weight of the best sample differ in the reloaded summary",
                    {"got": [f2h(s.log_likelihood), f2h(s.log_prior), f2h(s.weight)], "want": [tr["ll"][b], tr["lp"][b], tr["w"][b]]})
    st, v = attempt(summ.max_log_likelihood, as_instance=False)
    if st == "err":
        has_zero = any(h2f(x) == 0.0 for x in tr["params"][b])
        what = "summary-zero" if (has_zero and classify(model, case, "lookup-raises", "x") not in ("C09-mixed-depth-keys", "C09-reserved-column-name")) else "lookup-raises"
        if what == "summary-zero":
            ctx.fail("C09-summary-drops-zero", f"{route}: a best-fit parameter equal to 0.0 is missing from the reloaded summary", c, v)
            return False
        return fail("lookup-raises", "best-fit parameters of the reloaded summary cannot be looked up", v)
    if hexvec(v) != tr["params"][b]:
        return fail("best-fit", "best-fit parameters of the reloaded summary differ", {"got": hexvec(v), "want": tr["params"][b]})
    st, inst = attempt(lambda: summ.instance)
    st2, inst2 = attempt(summ.model.instance_from_vector, [h2f(x) for x in tr["params"][b]], ignore_prior_limits=True)
    if st2 == "ok":
        if st == "err":
            return fail("best-fit", "best-fit instance cannot be built from the reloaded summary", inst)
        d = X.inst_diff(X.canon_inst(X.inst_of(inst)), X.canon_inst(X.inst_of(inst2)))
        if d is not None:
            return fail("best-fit", "best-fit instance of the reloaded summary differs", str(d)[:200])
    # medians and errors as written
    for name, get in (
        ("median", lambda x: x.median_pdf(as_instance=False)),
        ("errors_at_sigma_1", lambda x: x.errors_at_sigma_1),
        ("errors_at_sigma_3", lambda x: x.errors_at_sigma_3),
        ("values_at_sigma_1", lambda x: x.values_at_sigma_1),
        ("values_at_sigma_3", lambda x: x.values_at_sigma_3),
        ("log_evidence", lambda x: x.log_evidence),
    ):
        st0, want = attempt(get, orig_summary)
        if st0 == "err" or want is None:
            continue
        want0 = want
        if name != "log_evidence":
            want = [want[j] for j in perm]
        st1, got = attempt(get, summ)
        if st1 == "err":
            has_zero = any(float(x) == 0.0 for x in flat(want))
            if name == "median" and has_zero:
                ctx.fail("C09-summary-drops-zero", f"{route}: a median equal to 0.0 is missing from the reloaded summary", c, got)
                return False
            return fail("lookup-raises", f"{name} of the reloaded summary raises", got)
        if got is not None and perm != sorted(perm) and not same_numbers(got, want) and same_numbers(got, want0):
            ctx.fail("C09-summary-lists-model-order", f"{route}: {name} of the reloaded summary is listed in the fitted model's parameter order, "
                     "the model attached to it orders its parameters differently", c, {"got": str(got)[:200], "want": str(want)[:200], "columns": perm})
            continue
        if got is None or not same_numbers(got, want):
            return fail("derived", f"{name} of the reloaded summary differs", {"got": str(got)[:200], "want": str(want)[:200]})
    return True


# ---------------------------------------------------------------------------------------------
# routes

_engine = None
_counter = [0]


def engine():
    global _engine
    if _engine is None:
        _engine = sa.create_engine(f"sqlite:///{scratch_dir() / 'c09.sqlite'}")
        db.Base.metadata.create_all(_engine)
    return _engine


def session():
    return sa.orm.sessionmaker(bind=engine())()


def fresh_name():
    _counter[0] += 1
    return f"c{_counter[0]}"


def read_table(path):
    with open(path, newline="") as f:
        rows = list(csv.reader(f))
    return rows[0], rows[1:]


def persisted_indices(spec):
    """the samples a fit writes: weight above the configured threshold"""
    thr = conf.instance["output"]["samples_weight_threshold"]
    if thr is None:
        return None
    return [i for i, r in enumerate(spec["rows"]) if h2f(r["w"]) > thr]


def route_dir(ctx, model, case, samples, ans, cfg):
    name = fresh_name()
    paths = DirectoryPaths(name=name, path_prefix="c09")
    paths.model = model
    spec = case["samples"]
    tr = truth(model, spec, best=own_best(samples, samples))
    out = {}
    st, e = attempt(paths.save_samples, samples)
    if st == "err":
        ctx.hit("dir:save-rejected")
        if ans is not None and ans.get("csv") is not None:
            ctx.disagree("C09.csv.save", dict(case, route="dir"), e, "model writes a table")
        return
    ctx.hit("route:dir")
    header, cells = read_table(Path(paths.output_path) / "files" / "samples.csv")
    st_c, parsed = attempt(lambda: [[f2h(float(x)) for x in row] for row in cells])
    # the columns this property is about, found by name: further columns (which the loader must
    # ignore) and the amount of padding are not its subject
    names = [".".join(map(str, p)) for p in model.unique_prior_paths] + ["log_likelihood", "log_prior", "log_posterior", "weight"]
    stripped = [h.strip() for h in header]
    cols = [stripped.index(n) if stripped.count(n) == 1 else None for n in names]
    if None not in cols and st_c == "ok":
        if len(header) > len(names):
            ctx.hit("csv:extra-columns")
        header = [header[c] for c in cols]
        parsed = [[row[c] for c in cols] for row in parsed]
    elif len(header) != len(names):
        ctx.hit("csv:columns-not-identified")
        out["skip_table"] = True
    out["pads"] = [len(h) - len(h.lstrip(" ")) for h in header]
    out["header"] = header
    out["cells"] = parsed if st_c == "ok" else None
    # float text round trip, independent of the loader
    if st_c == "ok":
        want_rows = [r["v"] + [r["ll"], r["lp"], f2h(h2f(r["ll"]) + h2f(r["lp"])), r["w"]] for r in spec["rows"]]
        ctx.notes["numerical_tests"] = ctx.notes.get("numerical_tests", 0) + sum(len(r) for r in parsed)
        if parsed != want_rows and classify(model, case, "x", "dir") != "C09-reserved-column-name":
            ctx.fail(classify(model, case, "table-cells", "dir"), "dir: the numbers written to samples.csv are not the samples' numbers (column order or float text)",
                     dict(case, route="dir"), {"got": parsed[:2], "want": want_rows[:2], "header": header})
    st, loaded = attempt(lambda: paths.samples)
    exp = derived(samples)
    if st == "err":
        ctx.fail(classify(model, case, "load-raises", "dir"), "dir: loading samples.csv of a model the fit accepted raises",
                 dict(case, route="dir"), loaded)
        loaded = None
    else:
        check_loaded(ctx, model, case, "dir", loaded, tr, exp)
    out["loaded"] = loaded
    # summary
    st, summ0 = attempt(samples.summary)
    if st == "ok":
        st, e = attempt(paths.save_samples_summary, summ0)
        if st == "ok":
            ctx.hit("route:dir-summary")
            st, summ = attempt(paths.load_samples_summary)
            if st == "err":
                ctx.fail(classify(model, case, "summary-raises", "dir"), "dir: loading samples_summary.json raises", dict(case, route="dir:summary"), summ)
            else:
                check_summary(ctx, model, case, "dir:summary", summ, summ0, tr)
                out["summary"] = summ
        else:
            ctx.hit("dir:summary-save-rejected")
    else:
        ctx.hit("dir:summary-rejected:" + str(summ0).split(":")[0])
        dbg("summary rejected", summ0)
    # the same output path written again with other samples (a fit re-run, a search chaining over one folder):
    # what is loaded afterwards - also through a new paths object - is what was written last
    if loaded is not None and len(spec["rows"]) >= 2 and ctx.rng.random() < 0.5:
        spec2 = dict(spec, rows=list(reversed(spec["rows"]))[: max(1, len(spec["rows"]) - 1)])
        case2 = dict(case, samples=spec2, resaved=True)
        st2, samples2 = attempt(build_samples, model, spec2)
        if st2 == "ok":
            st2, e2 = attempt(paths.save_samples, samples2)
        if st2 == "ok":
            ctx.hit("route:dir-written-again")
            paths2 = DirectoryPaths(name=name, path_prefix="c09")
            paths2.model = model
            for how, pp in (("same paths object", paths), ("new paths object", paths2)):
                st3, loaded2 = attempt(lambda: pp.samples)
                if st3 == "err":
                    ctx.fail(classify(model, case2, "load-raises", "dir"), "dir: loading samples.csv written a second time raises",
                             dict(case2, route="dir:again"), loaded2)
                else:
                    check_loaded(ctx, model, case2, "dir", loaded2, truth(model, spec2, best=own_best(samples2, samples2)), derived(samples2))
    shutil.rmtree(paths.output_path, ignore_errors=True)
    return out


def db_summary_rewritten(ctx, model, case):
    """a database fit whose samples summary is saved more than once (every result update of a search, a resume):
    what loads back - in the same session and in a new one - is the summary saved last"""
    spec = case["samples"]
    if len(spec["rows"]) < 2:
        return
    spec2 = dict(spec, rows=list(reversed(spec["rows"]))[: max(1, len(spec["rows"]) - 1)])
    st, both = attempt(lambda: (build_samples(model, spec), build_samples(model, spec2)))
    if st == "err":
        return
    st, summs = attempt(lambda: (both[0].summary(), both[1].summary()))
    if st == "err":
        return
    tag = fresh_name()
    s = session()
    case2 = dict(case, samples=spec2, resaved=True)
    try:
        paths = DatabasePaths(session=s, save_all_samples=True, unique_tag=tag)
        paths.model = model
        st, e = attempt(lambda: (paths.save_samples_summary(summs[0]), s.commit(), paths.load_samples_summary(),
                                 paths.save_samples_summary(summs[1]), s.commit()))
        if st == "err":
            ctx.hit("db-summary-rewrite:save-rejected")
            return
        # the samples themselves: saved, loaded, saved again (other samples), loaded again on the same paths object
        st_s, e_s = attempt(lambda: (paths.save_samples(both[0]), s.commit(), paths.samples, paths.save_samples(both[1]), s.commit()))
        if st_s == "ok":
            def again():
                got_ = paths.samples
                got_.model = model
                return got_
            st_s, got_s = attempt(again)
            if st_s == "err":
                ctx.fail(classify(model, case2, "load-raises", "db"), "db: loading samples saved a second time raises", dict(case2, route="db:again"), got_s)
            else:
                ctx.hit("route:db-samples-written-again")
                check_loaded(ctx, model, case2, "db:again", got_s, truth(model, spec2, best=own_best(both[1], both[1])), derived(both[1]))
        ctx.hit("route:db-summary-written-again")
        tr2 = truth(model, spec2, best=own_best(both[1], both[1]))
        st, got = attempt(paths.load_samples_summary)
        if st == "err":
            ctx.fail(classify(model, case2, "summary-raises", "db"), "db: loading a samples summary saved a second time raises", dict(case2, route="db:summary-again"), got)
        else:
            check_summary(ctx, model, case2, "db:summary-again", got, summs[1], tr2)
        s.close()
        s = session()
        p2 = DatabasePaths(session=s, save_all_samples=True, unique_tag=tag)
        p2.model = model
        st, got = attempt(p2.load_samples_summary)
        if st == "err":
            ctx.fail(classify(model, case2, "summary-raises", "db"), "db: loading a samples summary saved a second time raises (new session)",
                     dict(case2, route="db:summary-again-new-session"), got)
        else:
            check_summary(ctx, model, case2, "db:summary-again-new-session", got, summs[1], tr2)
    finally:
        s.close()


def route_db(ctx, model, case, samples, save_all):
    spec = case["samples"]
    tag = fresh_name()
    s = session()
    paths = DatabasePaths(session=s, save_all_samples=save_all, unique_tag=tag)
    paths.model = model
    route = "db" if save_all else "db-min"
    st, e = attempt(lambda: (paths.save_samples(samples), s.commit()))
    fit_id = paths.identifier if st == "ok" else None
    # the row's own best fit (what a search writes at every update): the instance and likelihood of the sample of
    # highest likelihood
    want_best = None
    if st == "ok":
        st_b, e_b = attempt(lambda: (paths.save_summary(samples, None, None), s.commit()))
        if st_b == "ok":
            lls_ = [h2f(r["ll"]) for r in spec["rows"]]
            if lls_ and not any(x != x for x in lls_):
                want_best = max(lls_)
    s.close()
    if st == "err":
        ctx.hit(f"{route}:save-rejected")
        return None
    ctx.hit(f"route:{route}")
    if save_all:
        tr = truth(model, spec, best=own_best(samples, samples))
        multiset = False
        exp = derived(samples)
    else:
        lls = [h2f(r["ll"]) for r in spec["rows"]]
        if any(x != x for x in lls):
            return None
        posts = [h2f(r["ll"]) + h2f(r["lp"]) for r in spec["rows"]]
        if any(x != x for x in posts):
            return None
        st, mini = attempt(lambda: samples.minimise().sample_list)
        if st == "err":
            return None
        keep = sorted({i for i, x in enumerate(samples.sample_list) if any(x is y for y in mini)})
        tr = truth(model, spec, keep)
        multiset = True
        exp = None
    out = {}
    s2 = session()
    try:
        st, fit = attempt(lambda: s2.query(db.Fit).filter(db.Fit.id == fit_id).one())
        if st == "err":
            ctx.fail(f"C09-{route}-missing", f"{route}: the fit row is not in the database", dict(case, route=route), fit)
            return None
        st, loaded = attempt(lambda: fit.samples)
        if st == "err" or loaded is None:
            ctx.fail(classify(model, case, "load-raises", route), f"{route}: Fit.samples of a model the fit accepted raises / is None", dict(case, route=route), loaded)
            return None
        if want_best is not None:
            ctx.hit(f"route:{route}-row-best-fit")
            st_i, got_i = attempt(lambda: (fit.max_log_likelihood, X.canon_inst(X.inst_of(fit.instance))))
            best_rows = [r for r in spec["rows"] if h2f(r["ll"]) == want_best]
            st_w, want_insts = attempt(lambda: [X.canon_inst(X.inst_of(model.instance_from_vector([h2f(x) for x in r["v"]], ignore_prior_limits=True)))
                                                for r in best_rows])
            if st_i == "err":
                ctx.fail(f"C09-{route}-row-best-fit", f"{route}: reading the row's best-fit instance raises", dict(case, route=route), got_i)
            elif st_w == "ok" and (got_i[0] != want_best or all(
                    json.dumps(got_i[1], sort_keys=True).replace("8000000000000000", "0000000000000000")  # (-0.0 is stored as 0.0)
                    != json.dumps(w, sort_keys=True).replace("8000000000000000", "0000000000000000") for w in want_insts)):
                ctx.fail(f"C09-{route}-row-best-fit", f"{route}: the fit row's instance / max_log_likelihood are not those of a sample of highest likelihood",
                         dict(case, route=route), {"max_log_likelihood": got_i[0], "want": want_best})
        # Fit.samples carries the model stored beside it (ids kept): use as is
        check_loaded(ctx, model, case, f"{route}:Fit.samples", loaded, tr, exp, multiset=multiset)
        out["loaded"] = [canon_sample(x) for x in loaded.sample_list]
        p2 = DatabasePaths(session=s2, save_all_samples=save_all, unique_tag=tag)
        p2.model = model
        def via_paths():
            got = p2.samples
            got.model = model
            return got

        st, l2 = attempt(via_paths)
        if st == "err":
            ctx.fail(classify(model, case, "load-raises", route), f"{route}: DatabasePaths load of samples raises", dict(case, route=route), l2)
        else:
            check_loaded(ctx, model, case, f"{route}:paths", l2, tr, exp, multiset=multiset)
        if ctx.rng.random() < 0.3:
            agg = af.Aggregator(s2)
            st, vals = attempt(lambda: list(agg.query(agg.search.unique_tag == tag).values("samples")))
            if st == "err" or len(vals) != 1:
                ctx.fail(f"C09-{route}-aggregator", f"{route}: database aggregator does not return the samples", dict(case, route=route), str(vals)[:200])
            else:
                ctx.hit(f"route:{route}-aggregator")
                check_loaded(ctx, model, case, f"{route}:aggregator", vals[0], tr, exp, multiset=multiset)
    finally:
        s2.close()
    return out


def route_fit(ctx, model, case):
    """scripted fit, completed re-run, directory aggregator, scrape"""
    spec = case["samples"]
    name = fresh_name()
    prefix = f"c09fit/{name}"
    holder = {}

    def script(m):
        holder["samples"] = build_samples(m, spec)
        return holder["samples"]

    # output settings: with remove_files the finished fit is kept as an archive only and the re-run reads it back
    zipped = ctx.rng.random() < 0.35
    output_cfg = conf.instance["general"]["output"]
    keep_setting = output_cfg["remove_files"]
    if zipped:
        output_cfg["remove_files"] = True
        ctx.hit("fit:remove_files")
    try:
        return _route_fit(ctx, model, case, spec, name, prefix, holder, script, zipped)
    finally:
        output_cfg["remove_files"] = keep_setting


def _route_fit(ctx, model, case, spec, name, prefix, holder, script, zipped):
    st, r1 = attempt(lambda: ScriptedSearch(script=script, name=name, path_prefix=prefix).fit(model, ConstAnalysis()))
    if st == "err":
        ctx.hit("fit:rejected:" + r1.split(":")[0])
        dbg("fit rejected", r1)
        return
    samples = holder["samples"]
    keep = persisted_indices(spec)
    st, kept = attempt(lambda: samples.samples_above_weight_threshold_from())
    exp = derived(kept) if st == "ok" else None
    tr = truth(model, spec, keep, best=own_best(kept, samples) if st == "ok" else None)
    tr_all = truth(model, spec, best=own_best(samples, samples))
    st, summ0 = attempt(samples.summary)
    ctx.hit("route:fit")
    case = dict(case, persisted=keep)
    st, r2 = attempt(lambda: ScriptedSearch(script=script, name=name, path_prefix=prefix).fit(model, ConstAnalysis()))
    if st == "err":
        ctx.fail(classify(model, case, "load-raises", "fit"), "fit: re-running a completed fit raises while loading its samples", dict(case, route="fit:rerun"), r2)
    else:
        if r2.samples is None:
            ctx.fail("C09-fit-missing", "fit: re-run of a completed fit has no samples", dict(case, route="fit:rerun"), None)
        else:
            check_loaded(ctx, model, case, "fit:rerun", r2.samples, tr, exp)
        if summ0 is not None:
            check_summary(ctx, model, case, "fit:rerun-summary", r2.samples_summary, summ0, tr_all)
    if zipped:
        return
    out_dir = Path(conf.instance.output_path) / prefix
    st, agg = attempt(DirAggregator.from_directory, out_dir)
    if st == "err" or len(agg) != 1:
        ctx.fail("C09-fit-aggregator", "fit: directory aggregator does not find the completed fit", dict(case, route="fit:aggregator"), str(agg)[:200])
    else:
        so = agg[0]
        st, m_ = attempt(lambda: so.model)
        if st == "err" or m_ is None:
            # model.json itself cannot be read back: C08's subject (e.g. C08-instance-extra-attr)
            ctx.hit("fit:aggregator-model-reload-raises")
            shutil.rmtree(out_dir, ignore_errors=True)
            return
        st, ls = attempt(lambda: so.samples)
        if st == "err":
            ctx.fail(classify(model, case, "load-raises", "fit"), "fit: SearchOutput.samples raises", dict(case, route="fit:aggregator"), ls)
        else:
            ctx.hit("route:fit-aggregator")
            # the aggregator's model comes from model.json: same paths, fresh ids in the same order (C08)
            check_loaded(ctx, model, case, "fit:aggregator", ls, tr, exp)
        st, sm = attempt(lambda: so.samples_summary)
        if st == "err":
            ctx.fail(classify(model, case, "summary-raises", "fit"), "fit: SearchOutput.samples_summary raises", dict(case, route="fit:aggregator-summary"), sm)
        elif summ0 is not None:
            check_summary(ctx, model, case, "fit:aggregator-summary", sm, summ0, tr_all)
        if attempt(lambda: so.samples)[0] == "ok":
            correspond_reordered(ctx, model, case, so.samples, sm if st == "ok" else None, probe_flags())
    if ctx.rng.random() < 0.5:
        f = scratch_dir() / f"scrape_{name}.sqlite"
        st, dbagg = attempt(lambda: af.Aggregator.from_database(str(f)))
        if st == "ok":
            st, e = attempt(dbagg.add_directory, out_dir)
        if st == "err":
            ctx.hit("fit:scrape-rejected")
            dbg("scrape rejected", e if st == "err" else dbagg)
        else:
            st, fits = attempt(lambda: list(dbagg))
            if st == "err" or len(fits) != 1:
                ctx.fail("C09-fit-scrape", "fit: scraping the completed fit into a database gives no fit", dict(case, route="fit:scrape"), str(fits)[:200])
            else:
                st, ls = attempt(lambda: fits[0].samples)
                if st == "err" or ls is None:
                    ctx.fail(classify(model, case, "load-raises", "fit"), "fit: Fit.samples of the scraped fit raises / is None", dict(case, route="fit:scrape"), ls)
                else:
                    ctx.hit("route:fit-scrape")
                    # the scraper stores minimised samples
                    lls = [h2f(x) for x in tr["ll"]]
                    posts = [h2f(a) + h2f(b) for a, b in zip(tr["ll"], tr["lp"])]
                    if lls and not any(x != x for x in lls + posts):
                        if len(ls.sample_list) == len(lls):
                            check_loaded(ctx, model, case, "fit:scrape", ls, tr, None)
                        else:
                            k2 = sorted({i for i, x in enumerate(lls) if x == max(lls)} | {i for i, x in enumerate(posts) if x == max(posts)})
                            got_rows = {tuple(hexvec(v)) for v in ls.parameter_lists} if attempt(lambda: ls.parameter_lists)[0] == "ok" else set()
                            perm2 = column_map(model, ls.model) or list(range(model.prior_count))
                            k2 = [i for i in k2 if tuple(tr["params"][i][j] for j in perm2) in got_rows] or k2[:1]
                            tr2 = {k: ([v[i] for i in k2] if isinstance(v, list) else None) for k, v in tr.items()}
                            check_loaded(ctx, model, case, "fit:scrape", ls, tr2, None, multiset=True)
            with contextlib.suppress(Exception):
                dbagg.session.close()
    shutil.rmtree(out_dir, ignore_errors=True)


# ---------------------------------------------------------------------------------------------
# estimates: Lean `AF.SamplesStats` (exact rationals) vs the library's floating-point results

SIGMAS = (1.0, 3.0)
STAT_TOL = 1e-9


def stats_request():
    """quantile levels exactly as the library computes them (libm), handed to the model as data"""
    return {
        "ucs": int(conf.instance["general"]["output"]["unconverged_sample_size"]),
        "qlows": [f2h((1 - math.erf(s / math.sqrt(2))) / 2) for s in SIGMAS],
        "qlows_mcmc": [f2h(1.0 - math.erf(0.5 * s * math.sqrt(2))) for s in SIGMAS],
    }


def frac(s):
    from fractions import Fraction

    a, b = s.split("/")
    return Fraction(int(a), int(b))


def near(got, want, scale, exact):
    """a double of the library against a rational of the model"""
    from fractions import Fraction

    got = float(got)
    if got != got or math.isinf(got):
        return False
    if exact:
        return Fraction(got) == want
    return abs(Fraction(got) - want) <= Fraction(STAT_TOL) * scale


def knot_near(col, ws, qs):
    """is one of the quantile levels within 1e-9 of a knot of the weighted cdf (where the interpolated
    value may jump: rounding decides the branch)"""
    x = np.asarray(col, dtype=float)
    w = np.asarray(ws, dtype=float)
    with np.errstate(all="ignore"):
        c = np.cumsum(w[np.argsort(x)])[:-1]
        if len(c) == 0 or not c[-1] > 0:
            return False
        c = np.append(0, c / c[-1])
    return any(np.min(np.abs(c - q)) <= 1e-9 for q in qs)


def correspond_stats(ctx, model, c, samples, ans, sreq):
    """median_pdf / values_at_sigma / errors_at_sigma (SamplesPDF and SamplesMCMC), max_log_posterior_index,
    minimise() of the ORIGINAL samples against the model; that the reloaded samples give the same estimates is
    the oracle's part (check_loaded: derived)"""
    from autofit.non_linear.samples.mcmc import SamplesMCMC

    sl = samples.sample_list
    lls = [float(x) for x in samples.log_likelihood_list]
    posts = [float(a) + float(b) for a, b in zip(samples.log_likelihood_list, samples.log_prior_list)]
    if "max_post_index" in ans and sl and not any(x != x for x in lls + posts):
        st, i = attempt(lambda: samples.max_log_posterior_index)
        if st == "ok":
            if ans["max_post_index"] != i:
                ctx.disagree("C09.stats.max_post_index", c, i, ans["max_post_index"])
            st, mini = attempt(lambda: samples.minimise().sample_list)
            if st == "ok":
                got = sorted({k for k, x in enumerate(sl) if any(x is y for y in mini)})
                # (equal Sample objects hash alike: the set may keep either of two equal samples)
                if got != ans["minimise_idx"] and len({id(x) for x in sl}) == len(sl) and len(set(sl)) == len(sl):
                    ctx.disagree("C09.stats.minimise", c, got, ans["minimise_idx"])
                ctx.hit("stats:minimise")
    if ans.get("stats") is None:
        ctx.hit("stats:skipped-non-finite")
        return
    st, pl = attempt(lambda: samples.parameter_lists)
    if st == "err":
        return
    rows = [[float(x) for x in r] for r in pl]
    n = len(rows[0]) if rows else 0
    ws = [float(x) for x in samples.weight_list]
    cols = [[r[j] for r in rows] for j in range(n)]
    conv = max(ws) <= 0.99 if ws else False
    if bool(ans["converged"]) != conv:
        ctx.disagree("C09.stats.converged", c, conv, ans["converged"])
        return
    with contextlib.suppress(Exception):
        st_m, mcmc = attempt(lambda: SamplesMCMC(model=model, sample_list=sl))
    for kind, obj, key in (("pdf", samples, "qlows"), ("mcmc", mcmc if st_m == "ok" else None, "qlows_mcmc")):
        if obj is not None:
            compare_estimates(ctx, c, kind, obj, cols, ws, conv, ans["stats"][kind], [h2f(x) for x in sreq[key]], f"C09.stats.{kind}")


def compare_estimates(ctx, c, kind, obj, cols, ws, conv, mods, qlows, clause):
    """median / values / errors at sigma of the real object `obj` (its parameters' columns: `cols`) against the
    model's exact ones `mods` (one list per sigma)"""
    n = len(cols)
    # floating-point results are compared with the exact ones only where neither overflows nor loses everything
    tame_w = all(w == 0.0 or 1e-150 <= w <= 1e150 for w in ws)
    tame = [tame_w and all(x == 0.0 or 1e-150 <= abs(x) <= 1e150 for x in col) for col in cols]
    scale = [max([abs(x) for x in col] + [5e-324]) for col in cols]
    for si, sigma in enumerate(SIGMAS):
        mod = mods[si]
        if mod is None:
            continue
        ql = qlows[si]
        with np.errstate(all="ignore"):
            st1, med = attempt(lambda: obj.median_pdf(as_instance=False))
            st2, val = attempt(lambda: obj.values_at_sigma(sigma=sigma, as_instance=False))
            st3, err = attempt(lambda: obj.errors_at_sigma(sigma=sigma, as_instance=False))
        for j in range(n):
            exact = kind == "pdf" and not conv
            if not tame[j] and not exact:
                ctx.hit("stats:column-skipped-extreme-magnitudes")
                continue
            if kind == "pdf" and conv:
                if len(set(cols[j])) != len(cols[j]):
                    ctx.hit("stats:column-skipped-repeated-values")  # which of two equal values numpy sorts first
                    continue
                if knot_near(cols[j], ws, [0.5, ql, 1 - ql]):
                    ctx.hit("stats:column-skipped-level-at-knot")
                    continue
            got = None
            if st1 == st2 == st3 == "ok":
                got = [med[j], val[j][0], val[j][1], err[j][0], err[j][1]]
                if any(float(x) != float(x) for x in got):
                    got = None
            want = None if mod[j] is None else [frac(x) for x in mod[j]]
            ctx.notes["numerical_tests"] = ctx.notes.get("numerical_tests", 0) + 5
            if (got is None) != (want is None):
                ctx.disagree(clause + ".defined", dict(c, column=j, sigma=sigma),
                             None if got is None else [float(x) for x in got], mod[j])
            elif got is not None and not all(near(g, w, scale[j], exact and k < 3)  # (the two errors are floating-point differences)
                                              for k, (g, w) in enumerate(zip(got, want)) if k < 3 or tame[j]):
                ctx.disagree(clause, dict(c, column=j, sigma=sigma),
                             [float(x) for x in got], [float(w) for w in want])
            else:
                ctx.hit(f"stats:{kind}:" + ("none" if got is None else ("converged" if (conv or kind == "mcmc") else "unconverged")))


def correspond_reordered(ctx, model, case, loaded, summ, cfg):
    """A completed fit read through the directory aggregator: the model attached to the reloaded samples comes from
    model.json and may list the parameters in another order. Model: `reorder idx (shapeOf t)` is that model's shape,
    the estimates recomputed under it are those of the reloaded samples, and the plain lists stored in the summary
    agree with them by position exactly where the model says so (`attributed`)."""
    spec = case["samples"]
    keep = case.get("persisted")
    if keep is not None and keep != list(range(len(spec["rows"]))):
        ctx.hit("reordered:skipped-some-samples-not-persisted")
        return
    idx = column_map(model, loaded.model)
    if idx is None:
        return
    c = dict(case, route="model:reordered")
    sreq = stats_request()
    req = {"p": "C09", "comp": X.node_of(model), "cfg": cfg, "pads": [], "stats": sreq, "reorder": idx}
    req.update(wire_samples(model, spec))
    ans = ctx.lean.ask(req)
    if "driver_error" in ans:
        ctx.disagree("C09.driver", c, None, ans)
        return
    ro = ans.get("reordered")
    if ro is None:
        ctx.hit("reordered:skipped-non-finite")
        return
    ctx.hit("reordered:same-order" if idx == sorted(idx) else "reordered:other-order")

    def canon_shape(sh):
        return [{"paths": sorted(P["paths"]), "names": sorted(P["names"]), "uniq": P["uniq"]} for P in sh]

    st, rs = attempt(real_shape, loaded.model)
    if st == "ok" and canon_shape(rs) != canon_shape(ro["shape"]):
        ctx.disagree("C09.reordered.shape", c, rs[:4], ro["shape"][:4])
        return
    st, pl = attempt(lambda: loaded.parameter_lists)
    if st == "err":
        return
    rows = [[float(x) for x in r] for r in pl]
    n = len(rows[0]) if rows else 0
    ws = [float(x) for x in loaded.weight_list]
    cols = [[r[j] for r in rows] for j in range(n)]
    conv = max(ws) <= 0.99 if ws else False
    qlows = [h2f(x) for x in sreq["qlows"]]
    compare_estimates(ctx, c, "pdf", loaded, cols, ws, conv, ro["pdf"], qlows, "C09.reordered.pdf")
    # the stored lists read by position
    if summ is None:
        return
    for si, (sigma, name) in enumerate(zip(SIGMAS, ("values_at_sigma_1", "values_at_sigma_3"))):
        flags = ro["by_position"][si]
        stored = getattr(summ, name, None)
        st, fresh = attempt(lambda: loaded.values_at_sigma(sigma=sigma, as_instance=False))
        if flags is None or stored is None or st == "err" or len(stored) != n or (conv and len(rows) < 2):
            continue
        for k in range(n):
            if k not in idx:
                continue
            # (stored[k] was computed from the fitted model's column k = column idx.index(k) of the reloaded samples)
            if conv and any(len(set(col)) != len(col) or knot_near(col, ws, [qlows[si], 1 - qlows[si]])
                            for col in (cols[k], cols[idx.index(k)])):
                continue
            sc = max([abs(x) for col in cols for x in col] + [5e-324])
            if not all(x == 0.0 or 1e-150 <= abs(x) <= 1e150 for col in cols for x in col):
                continue
            same = all(abs(float(a) - float(b)) <= STAT_TOL * sc for a, b in zip(stored[k], fresh[k]))
            if same != bool(flags[k]) and not (same and not flags[k]):
                # (numerically coinciding estimates of two different parameters are not told apart)
                ctx.disagree("C09.reordered.by_position", dict(c, column=k, sigma=sigma),
                             {"stored": [float(x) for x in stored[k]], "fresh": [float(x) for x in fresh[k]]}, flags[k])
            else:
                ctx.hit("reordered:by-position-" + ("agrees" if flags[k] else "attributes-another-parameter"))


# ---------------------------------------------------------------------------------------------
# correspondence


def real_shape(model):
    ap = model.all_paths
    an = model.all_names
    up = model.unique_prior_paths
    return [
        {"paths": [list(map(str, p)) for p in ps], "names": [str(n) for n in ns], "uniq": list(map(str, u))}
        for ps, ns, u in zip(ap, an, up)
    ]


def plists(samples):
    out = []
    for s in samples.sample_list:
        try:
            out.append(hexvec(s.parameter_lists_for_paths(samples.paths if s.is_path_kwargs else samples.names)))
        except KeyError:
            out.append(None)
    return out


def correspond(ctx, model, case, samples, dir_out, db_out, cfg):
    comp = X.node_of(model)
    req = {"p": "C09", "comp": comp, "cfg": cfg, "pads": (dir_out or {}).get("pads", [])}
    req.update(wire_samples(model, case["samples"]))
    req["stats"] = stats_request()
    ans = ctx.lean.ask(req)
    c = dict(case, route="model")
    if "driver_error" in ans:
        ctx.disagree("C09.driver", c, None, ans)
        return None

    def cmp(clause, impl, mod):
        if impl != mod:
            ctx.disagree(clause, c, json.loads(json.dumps(impl))[:6] if isinstance(impl, list) else impl,
                         mod[:6] if isinstance(mod, list) else mod)
            return False
        return True

    cmp("C09.shape", real_shape(model), ans["shape"])
    cmp("C09.samples", [canon_sample(s) for s in samples.sample_list], ans["samples"])
    cmp("C09.param_lists", plists(samples), ans["param_lists"])
    correspond_stats(ctx, model, c, samples, ans, req["stats"])
    ctx.hit("model:wf" if ans["wf"] else "model:not-wf")
    if not ans["wf"] and not features(model)["reserved"]:
        # the theorems do not speak about this generated composition: make it visible
        ctx.disagree("C09.wf-unexplained", c, "generated model outside the theorems' well-formedness guard", ans["shape"][:4])
    back = ans["csv_loaded"] if ans.get("csv_loaded") else ans["samples"]
    ctx.hit("model:reload-names-route" if not any(isinstance(k, list) for s in back for k, _ in s["kw"]) else "model:reload-paths-route")
    if dir_out is not None:
        if ans["csv"] is None:
            ctx.disagree("C09.csv.save", c, "table written", None)
        else:
            if not dir_out.get("skip_table"):
                cmp("C09.csv.header", dir_out["header"], ans["csv"]["header"])
            if dir_out["cells"] is not None and not dir_out.get("skip_table"):
                cmp("C09.csv.cells", dir_out["cells"], ans["csv"]["rows"])
            loaded = dir_out.get("loaded")
            if loaded is None:
                if ans["csv_loaded"] is not None and all(x is not None for x in (ans["csv_param_lists"] or [None])):
                    ctx.disagree("C09.csv.load", c, "raises", "model loads")
            else:
                if ans["csv_loaded"] is None:
                    ctx.disagree("C09.csv.load", c, "loads", "model raises")
                else:
                    cmp("C09.csv.loaded", [canon_sample(s) for s in loaded.sample_list], ans["csv_loaded"])
                    cmp("C09.csv.param_lists", plists(loaded), ans["csv_param_lists"])
                    lls_ = [h2f(r["ll"]) for r in case["samples"]["rows"]]
                    if ans["csv_best"] is not None and not any(x != x for x in lls_) and lls_.count(max(lls_)) == 1:
                        st, v = attempt(loaded.max_log_likelihood, as_instance=False)
                        cmp("C09.csv.best", hexvec(v) if st == "ok" else None, ans["csv_best"])
        summ = dir_out.get("summary")
        b = own_best(samples, samples)
        lls0 = [h2f(r["ll"]) for r in case["samples"]["rows"]]
        if b is not None and not any(x != x for x in lls0) and lls0.count(max(lls0)) == 1:
            # which of several equally likely samples is reported is not this property's subject
            cmp("C09.best_index", b, ans["best_index"])
        if summ is not None and b is not None:
            cmp("C09.summary.loaded", canon_sample(summ.max_log_likelihood_sample), ans["summary_loaded"][b])
            st, v = attempt(summ.max_log_likelihood, as_instance=False)
            cmp("C09.summary.param_list", hexvec(v) if st == "ok" else None, ans["summary_param_lists"][b])
    # database rows: the real EfficientSamples arrays, and what came back from the database
    st, eff = attempt(EfficientSamples, samples)
    if st == "err":
        if ans["eff_keys"] is not None:
            ctx.disagree("C09.efficient.build", c, eff, "model builds rows")
    elif ans["eff_keys"] is None:
        ctx.disagree("C09.efficient.build", c, "rows built", None)
    else:
        if hasattr(eff, "_keys") and hasattr(eff, "_values"):
            cmp("C09.efficient.keys", [canon_key(k) for k in eff._keys], ans["eff_keys"])
            vals = np.asarray(eff._values, dtype=float)
            cmp("C09.efficient.values", [hexvec(r) for r in vals.reshape(len(samples.sample_list), -1)] if len(samples.sample_list) else [], ans["eff_values"])
        else:
            ctx.hit("efficient:internals-renamed")
        cmp("C09.efficient.loaded", [canon_sample(s) for s in eff.sample_list], ans["eff_loaded"])
        if db_out is not None and db_out.get("loaded") is not None:
            cmp("C09.database.loaded", db_out["loaded"], ans["eff_loaded"])
    return ans


# ---------------------------------------------------------------------------------------------
# flags: replay the witnesses of the two repaired defects on the real code


def probe_flags():
    import vlib

    m = af.Collection(x=af.UniformPrior(0.0, 1.0), g=af.Model(vlib.P2))
    s = Sample(1.0, 0.0, 1.0, kwargs={"x": 1.0, "g.a": 2.0, "g.b": 3.0})
    try:
        keys = s.parameter_lists_for_paths(m.all_paths if s.is_path_kwargs else m.all_names) == [1.0, 2.0, 3.0]
    except KeyError:
        keys = False
    from autoconf.dictable import from_dict

    s2 = from_dict(json.loads(json.dumps(Sample(1.0, 0.0, 1.0, kwargs={("g", "a"): 0.0, ("g", "b"): 3.0}).dict())))
    return {"keys": bool(keys), "falsy": ("g", "a") in s2.kwargs}


# ---------------------------------------------------------------------------------------------


def features(model):
    ups = [tuple(p) for p in model.unique_prior_paths]
    allp = model.all_paths
    return {
        "n": len(ups),
        "mixed": len({len(p) == 1 for p in ups}) == 2,
        "shared": any(len(ps) > 1 for ps in allp),
        "flat": all(len(p) == 1 for p in ups),
        "member": any(str(p[-1]).rsplit("_", 1)[-1].isdigit() and len(p) >= 2 for p in ups),
        "reserved": any(len(p) == 1 and p[0] in RESERVED for p in ups),
    }


def one_case(ctx, case, cfg, label="gen"):
    try:
        model = gen_comp.run_program(case["program"])["root"]
    except Exception as e:
        ctx.hit("program-rejected:" + type(e).__name__)
        return
    spec = case["samples"]
    if model.prior_count == 0 or any(len(r["v"]) != model.prior_count for r in spec["rows"]):
        ctx.hit("case-rejected")
        return
    st, samples = attempt(build_samples, model, spec)
    if st == "err":
        ctx.hit("samples-rejected")
        return
    ft = features(model)
    nontrivial = ft["n"] >= 2 and len(spec["rows"]) >= 2 and (ft["mixed"] or ft["shared"] or ft["member"])
    ctx.case({"comp": X.node_of(model), "samples": spec, "routes": case["routes"]}, nontrivial=nontrivial,
             sample={"program": gen_comp.program_text(case["program"])[-300:], "columns": [".".join(map(str, q)) for q in model.unique_prior_paths][:8],
                     "n_samples": len(spec["rows"]), "form": spec["form"], "routes": case["routes"], "label": label})
    for k in ("mixed", "shared", "flat", "member", "reserved"):
        if ft[k]:
            ctx.hit("shape:" + k)
    ctx.hit("form:" + spec["form"])
    ctx.hit("wrap:" + case.get("wrap", "none"))
    dir_out = db_out = None
    if "dir" in case["routes"]:
        dir_out = route_dir(ctx, model, case, samples, None, cfg)
    if "db" in case["routes"]:
        db_out = route_db(ctx, model, case, samples, True)
        if ctx.rng.random() < 0.4:
            db_summary_rewritten(ctx, model, case)
    if "db-min" in case["routes"]:
        route_db(ctx, model, case, samples, False)
    if "fit" in case["routes"]:
        route_fit(ctx, model, case)
    if "dir" in case["routes"] or "db" in case["routes"]:
        correspond(ctx, model, case, samples, dir_out, db_out, cfg)


def run(ctx):
    ctx.rule = RULE
    ctx.assumptions = [
        "float(repr(x)) == x for every double (CPython); json dump/load of doubles incl. Infinity; validated bit-exactly on every generated value",
        "numpy array pickling / SQLite blob storage is trusted to return the stored bytes",
        "parameter names are Python identifiers (no dots, no blanks)",
    ]
    cfg = probe_flags()
    ctx.notes["flags_observed"] = cfg
    for f in sorted((VERIF / "corpus" / "C09").glob("*.json")):
        c = json.loads(f.read_text())
        one_case(ctx, c["case"] if "case" in c else c, cfg, label=f.name)
    n = ctx.n(130, 1800)
    n_fit = ctx.n(10, 120)
    n_min = ctx.n(20, 250)
    done = 0
    tries = 0
    while done < n and tries < 4 * n:
        tries += 1
        routes = ["dir", "db"]
        if done < n_fit:
            routes = ["fit"]
        elif done < n_fit + n_min:
            routes = ["dir", "db-min"]
        case = gen_case(ctx.rng, routes)
        if case is None:
            continue
        done += 1
        one_case(ctx, case, cfg)


def replay(ctx, payload):
    case = payload.get("case") or payload.get("disagreements", [{}])[0].get("case")
    cfg = probe_flags()
    case = dict(case)
    route = case.pop("route", None)
    one_case(ctx, case, cfg, label="replay")
