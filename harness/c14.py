"""C14 — parallel evaluation equals serial evaluation.

The REAL `SneakyPool.map`, `SneakyProcess.run`, `Process.run`, `Process.run_jobs` and
`Initializer.samples_from_model(n_cores>1)` are executed unmodified on fake queues under a deterministic
scheduler (c14_sched.py): every interleaving at queue-operation granularity is reproducible from
(batches, schedule).  The Lean model (`AFModel/ParEval.lean`, via the driver) is run on the same batches and
schedule and the API-level observables are diffed: values returned by position / by job number, the
exception reported, how often each input was evaluated, what is left in the queues.  The oracle re-states the
property sentence on the real outputs (serial evaluation of the same scripted inputs).  A few runs use real
OS processes and real multiprocessing queues."""
import collections
import gc
import json
import math
import random
import time

import c14_sched as S
from common import VERIF

from autofit import exc as af_exc
from autofit.non_linear.fitness import Fitness
from autofit.non_linear.parallel import SneakyPool, Process
from autofit.non_linear.parallel.process import AbstractJob, AbstractJobResult, StopCommand
import autofit.non_linear.initializer as initializer_module

RULE = (
    "generated sessions: SneakyPool.map (P=1..4 workers, 1..4 successive batches of 0..12 inputs on one pool, "
    "failing inputs at random/every position, three call styles: plain function / fitness mapped / fitness as "
    "argument), Process.run_jobs (1..4 workers, 0..12 jobs, failing jobs, stale empty() answers), "
    "Initializer.samples_from_model(n_cores=2..4) with rejected and failing points; map along schedules with a known "
    "number of fair rounds (at / above / below the bound 4nP+1, unfair prefixes); whole pool sessions (start, 0..2 "
    "batches, the real __del__ along caller-first / workers-first / mixed / starving schedules, then fair rounds); "
    "the stop tokens and live workers of every run_jobs case at return and after two fair rounds; schedules: uniform random, "
    "bursts, one slow worker, workers in reverse order, caller-first, plain round-robin. non-trivial = at least 2 "
    "workers and 2 inputs in one batch and (workers evaluated the inputs in an order different from the input "
    "order, or an input failed, or more than one batch); distinct = hash of (kind, P, outcomes, schedule)"
)


# ---------------------------------------------------------------------------------------------
# scripted inputs


class ScriptedError(Exception):
    def __init__(self, uid):
        super().__init__(uid)
        self.uid = uid


class Script:
    """what evaluating input `uid` does, and a log of who evaluated what"""

    def __init__(self, sched=None):
        self.outcome = {}
        self.log = []
        self.sched = sched

    def value(self, uid):
        return ("value", uid, uid * 7 + 3)

    def evaluate(self, uid):
        self.log.append((self.sched.actor() if self.sched else -1, uid))
        if self.outcome[uid] == "err":
            raise ScriptedError(uid)
        return self.value(uid)

    def serial(self, uids):
        """evaluate one after another: values up to the first failure, and that failure"""
        out = []
        for u in uids:
            if self.outcome[u] == "err":
                return out, u
            out.append(self.value(u))
        return out, None


_SCRIPT = None  # the script of the session in progress (module level: picklable call targets)


def plain_function(args):
    (uid,) = args
    return _SCRIPT.evaluate(uid)


def function_taking_fitness(args):
    fitness, uid = args
    return fitness.evaluate_uid(uid)


class ScriptedFitness(Fitness):
    """an autofit Fitness (so SneakyJob strips it from the arguments and the worker re-inserts its own copy)"""

    def __init__(self):  # the real constructor needs a model/analysis; nothing of it is used here
        pass

    def __call__(self, parameters):
        return _SCRIPT.evaluate(int(parameters[0]))

    def evaluate_uid(self, uid):
        return _SCRIPT.evaluate(uid)


MODES = ("plain", "fitness_mapped", "fitness_argument")


def call_style(mode, fitness, uids):
    if mode == "plain":
        return plain_function, [(u,) for u in uids]
    if mode == "fitness_mapped":
        return fitness, [(u, 0.5) for u in uids]
    return function_taking_fitness, [(fitness, u) for u in uids]


# ---------------------------------------------------------------------------------------------
# SneakyPool.map sessions


def real_map_session(P, mode, batches):
    """batches: [{"js": ["ok"|"err"...], "sched": [...]}] -> observations per batch"""
    global _SCRIPT
    sched = S.Sched()
    script = Script(sched)
    _SCRIPT = script
    obs = []
    fitness = ScriptedFitness()
    with S.fake_multiprocessing(sched):
        pool = SneakyPool(processes=P, fitness=fitness, paths=None)
        try:
            for b, batch in enumerate(batches):
                uids = [b * 100 + i for i in range(len(batch["js"]))]
                for u, o in zip(uids, batch["js"]):
                    script.outcome[u] = o
                function, args_list = call_style(mode, fitness, uids)
                sched.begin(batch["sched"])
                n_log = len(script.log)
                n_took = len(sched.caller_took)
                out, raised, stuck = [], None, False
                try:
                    for r in pool.map(function, args_list, log_info=False):
                        out.append(r)
                except ScriptedError as e:
                    raised = e.uid
                except S.Abort:
                    stuck = True
                except Exception as e:  # noqa
                    raised = f"Other:{type(e).__name__}:{str(e)[:60]}"
                log = script.log[n_log:]
                obs.append({
                    "uids": uids, "yielded": out, "raised": raised, "stuck": stuck,
                    "leftover": sum(len(q.items) for q in sched.queues),
                    "evaluated": sorted(u for _, u in log),
                    "eval_order": [u for _, u in log],
                    "arrival": [canon_arrival(x) for x in sched.caller_took[n_took:]],
                    "turns": sched.turns, "rr_used": sched.rr, "sched_pos": sched.pos,
                })
                if stuck:
                    break
        finally:
            sched.shutdown()
            del pool
    obs_extra = {"worker_errors": sched.worker_errors, "ops": dict(sched.ops)}
    return script, obs, obs_extra


def canon_arrival(x):
    if isinstance(x, ScriptedError):
        return ["err", x.uid]
    if isinstance(x, tuple) and len(x) == 3:
        return ["ok", x[1]]
    return ["?", repr(x)[:60]]


def soft(ctx, key, same):
    """schedule-dependent observables (which interleaving happened): agreement is measured and reported, it is
    not part of the verdict, so that a different polling cadence does not register"""
    d = ctx.notes.setdefault("interleaving_agreement", {})
    a = d.setdefault(key, [0, 0])
    a[0] += 1 if same else 0
    a[1] += 1


def canon_value(v):
    return list(v) if isinstance(v, tuple) else ["?", repr(v)[:80]]


def map_oracle(ctx, script, ob, case, prior_uids):
    """the property sentence on the real outputs of one batch"""
    uids = ob["uids"]
    want_out, want_exc = script.serial(uids)
    if ob["stuck"]:
        ctx.fail("C14-map-no-return", "SneakyPool.map does not return although every process is served fairly", case,
                 {"batch": uids, "evaluated": ob["evaluated"], "leftover": ob["leftover"]})
        return False
    ok = True
    if ob["yielded"] != want_out:
        ok = False
        stale = [v for v in ob["yielded"] if isinstance(v, tuple) and len(v) == 3 and v[1] in prior_uids]
        if stale:
            ctx.fail("C14-map-stale-result", "a batch returned a result that belongs to an earlier batch", case,
                     {"got": ob["yielded"], "want": want_out})
        elif sorted(map(repr, ob["yielded"])) == sorted(map(repr, want_out)) or sorted(map(repr, ob["yielded"])) == sorted(
                repr(script.value(u)) for u in uids if script.outcome[u] == "ok"):
            ctx.fail("C14-map-arrival-order", "SneakyPool.map returns results in arrival order, not matched to inputs by position", case,
                     {"got": ob["yielded"], "want": want_out, "evaluation_order": ob["eval_order"]})
        else:
            ctx.fail("C14-map-results", "SneakyPool.map does not return the serial results", case,
                     {"got": ob["yielded"], "want": want_out})
    if ob["raised"] != want_exc:
        ok = False
        ctx.fail("C14-map-exception", "the exception of a failing evaluation is not the one reported to the caller", case,
                 {"got": ob["raised"], "want": want_exc, "batch": uids})
    if ob["evaluated"] != sorted(uids):
        ok = False
        ctx.fail("C14-map-evaluation-count", "an input was not evaluated exactly once", case,
                 {"evaluated": ob["evaluated"], "inputs": uids})
    if ob["leftover"] != 0:
        ok = False
        ctx.fail("C14-map-leftover", "items are left in the pool's queues after map returned (attributable to a later batch)", case,
                 {"leftover": ob["leftover"], "batch": uids})
    return ok


def one_map_case(ctx, case, label="gen"):
    P, mode, batches = case["P"], case["mode"], case["batches"]
    script, obs, extra = real_map_session(P, mode, batches)
    req = {"p": "C14", "q": "map", "P": P, "fuel": 400, "batches": [
        {"js": [[o, b * 100 + i] for i, o in enumerate(batch["js"])], "sched": [abs(e) for e in batch["sched"]]}
        for b, batch in enumerate(batches)]}
    ans = ctx.lean.ask(req)
    if "driver_error" in ans:
        ctx.disagree("C14.driver", case, None, ans)
        return
    reordered = any(ob["eval_order"] != ob["uids"] for ob in obs)
    any_fail = any("err" in b["js"] for b in batches)
    big = P >= 2 and any(len(b["js"]) >= 2 for b in batches)
    ctx.case({"kind": "map", "P": P, "batches": batches}, nontrivial=bool(big and (reordered or any_fail or len(batches) > 1)),
             sample={"kind": "map", "P": P, "mode": mode, "batches": batches,
                     "returned": [[canon_value(v) for v in ob["yielded"]] for ob in obs], "raised": [ob["raised"] for ob in obs]})
    ctx.hit(f"map:P={P}")
    ctx.hit(f"map:mode={mode}")
    ctx.hit(f"map:batches={len(batches)}")
    if reordered:
        ctx.hit("map:workers-evaluated-out-of-input-order")
    if any_fail:
        ctx.hit("map:batch-with-failure")
    if extra["worker_errors"]:
        ctx.fail("C14-worker-crash", "a worker loop crashed", case, extra["worker_errors"])
    prior = set()
    for b, ob in enumerate(obs):
        m = ans["batches"][b]
        if m["legacy_yielded"] != m["yielded"] or m["legacy_raised"] != m["raised"]:
            ctx.hit("map:arrival-order-differs-from-input-order(model)")
        impl = {"finished": not ob["stuck"], "yielded": [canon_value(v) for v in ob["yielded"]], "raised": ob["raised"],
                "leftover": ob["leftover"], "evaluated": ob["evaluated"]}
        model = {"finished": m["finished"], "yielded": [list(script.value(u)) for u in m["yielded"]], "raised": m["raised"],
                 "leftover": m["leftover"], "evaluated": sorted(ob["uids"][i] for w in m["performed"] for i in w if i < len(ob["uids"]))}
        if impl != model:
            ctx.disagree("C14.map", dict(case, batch=b, label=label), impl, model)
        if not ob["stuck"] and m["finished"]:
            soft(ctx, "map: order in which the workers evaluated the inputs", [ob["uids"][i] for i in m["eval_order"] if i < len(ob["uids"])] == ob["eval_order"])
            soft(ctx, "map: order in which the caller took the results", m["arrivals"] == ob["arrival"])
        map_oracle(ctx, script, ob, dict(case, batch=b, label=label), prior)
        prior |= set(ob["uids"])
        if ob["stuck"]:
            break


# ---------------------------------------------------------------------------------------------
# termination under fair schedules (theorem map_terminates_under_every_fair_schedule)


def fair_rounds(P, sched):
    """complete fair rounds (every actor 0..P at least once), counted greedily from the left"""
    n, missing = 0, set(range(P + 1))
    for e in sched:
        missing.discard(e)
        if not missing:
            n, missing = n + 1, set(range(P + 1))
    return n


def gen_fair_case(rng):
    P = rng.choice([1, 2, 2, 3])
    n = rng.choice([0, 1, 2, 3, 4, 5, 6])
    bound = 4 * n * P + 1
    rounds = rng.choice([bound, bound, bound + rng.randint(1, 3), rng.randint(0, 6), rng.randint(0, 2 * n + 2)])
    sched = []
    if rng.random() < 0.3:  # an unfair stretch first: one actor is not served at all
        absent = rng.randint(0, P)
        sched += [rng.choice([a for a in range(P + 2) if a != absent]) for _ in range(rng.randint(1, 12))]
    for _ in range(rounds):
        r = list(range(P + 1))
        rng.shuffle(r)
        for _ in range(rng.choice([0, 0, 0, 1, 2, 4])):  # a round may serve actors several times, in any order
            r.insert(rng.randrange(len(r) + 1), rng.randint(0, P))
        sched += r
    return {"kind": "fair", "P": P, "mode": rng.choice(MODES), "js": gen_outcomes(rng, n), "sched": sched}


def one_fair_case(ctx, case, label="gen"):
    """`map` along a schedule with a known number of fair rounds: when the schedule contains the rounds the
    theorem asks for, the real `map` has returned before the schedule is used up (no round-robin continuation)"""
    P, js, schedule = case["P"], case["js"], case["sched"]
    script, obs, extra = real_map_session(P, case["mode"], [{"js": js, "sched": schedule}])
    ob = obs[0]
    ans = ctx.lean.ask({"p": "C14", "q": "fair", "P": P, "js": [[o, i] for i, o in enumerate(js)], "sched": schedule})
    if "driver_error" in ans:
        ctx.disagree("C14.driver", case, None, ans)
        return
    within = (not ob["stuck"]) and ob["rr_used"] == 0
    enough = ans["fair_rounds"] >= ans["bound"]
    ctx.case({"kind": "fair", "P": P, "js": js, "sched": schedule}, nontrivial=bool(P >= 2 and len(js) >= 2 and enough),
             sample={"kind": "fair", "P": P, "js": js, "fair_rounds": ans["fair_rounds"], "bound": ans["bound"],
                     "returned_within_schedule": within})
    ctx.hit("fair:rounds>=bound" if enough else "fair:rounds<bound")
    if ans["fair_rounds"] != fair_rounds(P, schedule) or ans["bound"] != 4 * len(js) * P + 1:
        ctx.disagree("C14.fair.rounds", dict(case, label=label), [fair_rounds(P, schedule), 4 * len(js) * P + 1],
                     [ans["fair_rounds"], ans["bound"]])
    if ans["phi_end"] > ans["phi_start"] or (enough and not ans["finished"]):
        ctx.disagree("C14.fair.model-contradicts-theorem", dict(case, label=label), None, ans)
    if enough and not within:
        ctx.disagree("C14.fair.returned-within-schedule", dict(case, label=label), within, ans["finished"])
        ctx.fail("C14-map-not-within-fair-bound",
                 f"SneakyPool.map has not returned after {ans['fair_rounds']} fair rounds of the schedule (bound {ans['bound']})",
                 dict(case, label=label), {"stuck": ob["stuck"], "round_robin_turns_needed": ob["rr_used"]})
    if not enough:
        soft(ctx, "map: returned within the given schedule (fewer fair rounds than the bound)", within == ans["finished"])
    if within and ans["finished"]:
        impl = {"yielded": [canon_value(v) for v in ob["yielded"]], "raised": ob["raised"], "leftover": ob["leftover"]}
        model = {"yielded": [list(script.value(u)) for u in ans["yielded"]], "raised": ans["raised"], "leftover": ans["leftover"]}
        if impl != model:
            ctx.disagree("C14.fair.map", dict(case, label=label), impl, model)
    map_oracle(ctx, script, ob, dict(case, label=label), set())


# ---------------------------------------------------------------------------------------------
# start-up and shutdown (SneakyPool.__init__ / __del__, the stop tokens of Process.run_jobs)


def _pool_snapshot(pool, sched):
    out = []
    for proc in pool.processes:
        items = list(proc.job_queue.items)
        out.append({"alive": bool(sched.is_alive(proc)), "stops": sum(1 for x in items if x is StopCommand),
                    "results": len(proc.queue.items), "jobs": sum(1 for x in items if x is not StopCommand)})
    return out


def real_life_session(P, mode, batches, dels, rounds):
    """start a pool, run the batches, then the REAL `__del__` along exactly `dels`; then `rounds` fair rounds"""
    global _SCRIPT
    sched = S.Sched()
    script = Script(sched)
    _SCRIPT = script
    fitness = ScriptedFitness()
    res = {"batches": [], "stuck": False, "at_start": None, "at_end_of_schedule": None, "after_rounds": None, "del_raised": None}
    with S.fake_multiprocessing(sched):
        pool = SneakyPool(processes=P, fitness=fitness, paths=None)
        try:
            res["at_start"] = _pool_snapshot(pool, sched)
            for b, batch in enumerate(batches):
                uids = [b * 100 + i for i in range(len(batch["js"]))]
                for u, o in zip(uids, batch["js"]):
                    script.outcome[u] = o
                function, args_list = call_style(mode, fitness, uids)
                sched.begin(batch["sched"])
                out, raised = [], None
                try:
                    for r in pool.map(function, args_list, log_info=False):
                        out.append(r)
                except ScriptedError as e:
                    raised = e.uid
                res["batches"].append({"uids": uids, "yielded": out, "raised": raised})
            sched.begin(dels)
            try:
                pool.__del__()
            except S.Abort:
                raise
            except Exception as e:  # noqa
                res["del_raised"] = f"{type(e).__name__}:{str(e)[:60]}"
            n = len(dels)
            while sched.pos < n:
                sched.idle()
            res["at_end_of_schedule"] = _pool_snapshot(pool, sched)
            sched.drain((list(range(P + 1))) * rounds)
            res["after_rounds"] = _pool_snapshot(pool, sched)
        except S.Abort:
            res["stuck"] = True
        finally:
            sched.shutdown()
            del pool
    res["worker_errors"] = sched.worker_errors
    return script, res


def gen_life_case(rng):
    P = rng.choice([1, 2, 2, 3, 4])
    batches = []
    for _ in range(rng.choice([0, 1, 1, 2])):
        n = rng.choice([0, 1, 2, 3, 5])
        batches.append({"js": gen_outcomes(rng, n), "sched": gen_schedule(rng, P, n)})
    kind = rng.choice(["caller-first", "workers-first", "mixed", "mixed", "starve-one"])
    workers = list(range(1, P + 1))
    if kind == "caller-first":
        dels = [0] * P + [rng.choice(workers) for _ in range(rng.randint(0, 2 * P))]
    elif kind == "workers-first":
        dels = [rng.choice(workers) for _ in range(rng.randint(1, 2 * P))] + [0] * P
    elif kind == "starve-one":
        starved = rng.choice(workers)
        dels = [rng.choice([a for a in range(P + 1) if a != starved]) for _ in range(rng.randint(P, 4 * P + 2))]
    else:
        dels = [rng.randint(0, P) for _ in range(rng.randint(0, 5 * P + 2))]
    return {"kind": "life", "P": P, "mode": rng.choice(MODES), "batches": batches, "del_sched": dels}


def one_life_case(ctx, case, label="gen"):
    P, batches = case["P"], case["batches"]
    dels = list(case["del_sched"])
    dels += [0] * max(0, P - dels.count(0))  # __del__ itself runs to its end inside the schedule
    rounds = 2
    script, res = real_life_session(P, case["mode"], batches, dels, rounds)
    case = dict(case, label=label)
    ans = ctx.lean.ask({"p": "C14", "q": "life", "P": P, "fuel": 400, "rounds": rounds, "del_sched": dels, "batches": [
        {"js": [[o, b * 100 + i] for i, o in enumerate(batch["js"])], "sched": [abs(e) for e in batch["sched"]]}
        for b, batch in enumerate(batches)]})
    if "driver_error" in ans:
        ctx.disagree("C14.driver", case, None, ans)
        return
    ctx.case({"kind": "life", "P": P, "batches": batches, "del_sched": dels},
             nontrivial=bool(P >= 2 and len(set(dels)) >= 3),
             sample={"kind": "pool-session", "P": P, "batches": [b["js"] for b in batches], "del_sched": dels,
                     "at_end_of_schedule": res["at_end_of_schedule"], "after_rounds": res["after_rounds"]})
    ctx.hit(f"life:P={P}")
    ctx.hit(f"life:batches={len(batches)}")
    if any("err" in b["js"] for b in batches):
        ctx.hit("life:after-a-failing-batch")
    if res["worker_errors"]:
        ctx.fail("C14-worker-crash", "a worker loop crashed", case, res["worker_errors"])
    if res["stuck"] or res["del_raised"]:
        ctx.fail("C14-shutdown-no-return", "a pool session (map calls, then __del__) does not come to its end although every "
                 "process is served fairly", case, {"stuck": res["stuck"], "raised_in_del": res["del_raised"]})
        return
    # --- start-up: P processes running, nothing queued (newPool P)
    if res["at_start"] != [{"alive": True, "stops": 0, "results": 0, "jobs": 0}] * P:
        ctx.disagree("C14.life.start", case, res["at_start"], "P running processes, empty queues")
        ctx.fail("C14-startup", "a started SneakyPool does not consist of P running processes with empty queues", case, res["at_start"])
    # --- the batches still return their serial results (the session is a session of the property)
    for b, rec in enumerate(res["batches"]):
        want_out, want_exc = script.serial(rec["uids"])
        if rec["yielded"] != want_out or rec["raised"] != want_exc:
            ctx.fail("C14-map-results", "SneakyPool.map does not return the serial results", dict(case, batch=b),
                     {"got": rec["yielded"], "want": want_out, "raised": rec["raised"]})
    m1, m2 = ans["at_end_of_schedule"], ans["after_rounds"]
    r1, r2 = res["at_end_of_schedule"], res["after_rounds"]
    # --- safety, at the end of an arbitrary schedule: no result, no job; one StopCommand per process, taken or not
    inv_impl = [[w["results"], w["jobs"], w["stops"] + (0 if w["alive"] else 1)] for w in r1]
    inv_model = [[w["results"], w["jobs"], w["stops"] + (0 if w["alive"] else 1)] for w in m1["workers"]]
    if inv_impl != inv_model:
        ctx.disagree("C14.life.invariant", case, inv_impl, inv_model)
    if any(w["results"] or w["jobs"] for w in r1):
        ctx.fail("C14-shutdown-leftover", "results or jobs are on the pool's queues while it shuts down after map returned", case, r1)
    if any(w["stops"] + (0 if w["alive"] else 1) != 1 for w in r1):
        ctx.fail("C14-shutdown-stop-commands", "after __del__ a process has not been sent exactly one StopCommand "
                 "(or has left without taking one)", case, r1)
    soft(ctx, "shutdown: which processes have left at the end of the given schedule", [w["alive"] for w in r1] == [w["alive"] for w in m1["workers"]])
    # --- liveness: after fair rounds nobody runs, nothing is queued
    down_impl = not any(w["alive"] or w["stops"] or w["results"] or w["jobs"] for w in r2)
    if down_impl != m2["down"]:
        ctx.disagree("C14.life.down", case, r2, m2)
    if not down_impl:
        ctx.fail("C14-shutdown-incomplete", "after __del__ and fair service of every process a process is still running or "
                 "something is still queued", case, r2)
    if not m2["down"] or m1["results"] != 0:
        ctx.disagree("C14.life.model-contradicts-theorem", case, None, ans)


def runjobs_shutdown_obs(sched, P, stuck):
    """after Process.run_jobs has returned or raised: the shared queue and the workers, then two fair rounds"""
    if stuck or sched.abort or not sched.queues:
        return None
    q = sched.queues[0]

    def snap():
        return {"live": len(sched.live_workers()), "stops": sum(1 for x in q.items if x is StopCommand), "queue": len(q.items),
                "results": sum(len(x.items) for x in sched.queues[1:])}

    a = snap()
    try:
        sched.drain(list(range(P + 1)) * 2)
    except S.Abort:
        return {"at_return": a, "after": None}
    return {"at_return": a, "after": snap()}


def runjobs_shutdown_check(ctx, case, ob, ans):
    life = ob.get("life")
    if not life or not ans["done"]:
        return
    a, b = life["at_return"], life["after"]
    ctx.hit("run_jobs:shutdown-observed")
    if a["stops"] != a["live"] or a["queue"] != a["stops"] or a["results"]:
        ctx.disagree("C14.run_jobs.stop-tokens", case, a, {"stops": ans["stop_tokens"], "live": ans["live_workers"]})
        ctx.fail("C14-runjobs-stop-tokens", "when Process.run_jobs returns the shared queue does not hold exactly one stop token per "
                 "worker that has not left (or a job / result is still queued)", case, a)
    if ans["stop_tokens"] != ans["live_workers"] or ans["live_workers_after"] or ans["queue_after"]:
        ctx.disagree("C14.run_jobs.model-contradicts-theorem", case, None, ans)
    down = b is not None and b["live"] == 0 and b["queue"] == 0 and b["results"] == 0
    if down != (ans["live_workers_after"] == 0 and ans["queue_after"] == 0):
        ctx.disagree("C14.run_jobs.shutdown", case, b, {"live": ans["live_workers_after"], "queue": ans["queue_after"]})
    if not down:
        ctx.fail("C14-runjobs-shutdown-incomplete", "after Process.run_jobs returned and every worker was served, a worker is still "
                 "running or the shared queue is not empty", case, b)
    soft(ctx, "run_jobs: workers still running when run_jobs returns", a["live"] == ans["live_workers"])


# ---------------------------------------------------------------------------------------------
# Process.run_jobs sessions


class ScriptResult(AbstractJobResult):
    def __init__(self, number, value):
        super().__init__(number)
        self.value = value


class ScriptJob(AbstractJob):
    def __init__(self, number, uid):
        super().__init__(number=number)
        self.uid = uid

    def perform(self, *args):
        return ScriptResult(self.number, _SCRIPT.evaluate(self.uid))


def canon_item(r):
    if isinstance(r, ScriptedError):
        return ["err", r.uid]
    if isinstance(r, ScriptResult):
        return ["ok", r.number, canon_value(r.value)]
    return ["?", repr(r)[:80]]


def real_runjobs_session(P, js, schedule, numbers=None):
    global _SCRIPT
    sched = S.Sched()
    script = Script(sched)
    _SCRIPT = script
    numbers = numbers or list(range(len(js)))
    for n, o in zip(numbers, js):
        script.outcome[n] = o
    jobs = [ScriptJob(n, n) for n in numbers]
    out, raised, stuck = [], None, False
    with S.fake_multiprocessing(sched):
        sched.begin(schedule)
        try:
            for r in Process.run_jobs(jobs, number_of_cores=P + 1):
                out.append(canon_item(r))
        except AssertionError as e:
            raised = "AssertionError"
        except S.Abort:
            stuck = True
        except Exception as e:  # noqa
            raised = f"Other:{type(e).__name__}:{str(e)[:60]}"
        finally:
            pos_at_start = sched.pos_at_first_spawn or 0
            life = runjobs_shutdown_obs(sched, P, stuck)
            sched.shutdown()
    return script, {
        "pos_at_start": pos_at_start, "life": life,
        "yielded": out, "raised": raised, "stuck": stuck, "evaluated": sorted(u for _, u in script.log),
        "stale_fired": sched.stale_fired, "worker_errors": sched.worker_errors,
        "eval_order": [u for _, u in script.log],
    }


def runjobs_oracle(ctx, script, ob, case):
    numbers = case.get("numbers") or list(range(len(case["js"])))
    good = [n for n in numbers if script.outcome[n] == "ok"]
    bad = [n for n in numbers if script.outcome[n] == "err"]
    if ob["stuck"]:
        cls = "C14-runjobs-stale-empty" if ob["stale_fired"] else "C14-runjobs-no-return"
        ctx.fail(cls, "Process.run_jobs never returns: workers left on an unreliable empty() while jobs were outstanding"
                 if ob["stale_fired"] else "Process.run_jobs does not return although every process is served fairly",
                 case, {"yielded": ob["yielded"], "evaluated": ob["evaluated"]})
        return
    got_ok = sorted((it[1], tuple(it[2])) for it in ob["yielded"] if it[0] == "ok")
    want_ok = sorted((n, script.value(n)) for n in good)
    got_err = sorted(it[1] for it in ob["yielded"] if it[0] == "err")
    odd = [it for it in ob["yielded"] if it[0] == "?"]
    if got_ok != want_ok or odd:
        missing = [n for n, _ in want_ok if n not in [g[0] for g in got_ok]]
        if missing and bad and not odd and all(g in want_ok for g in got_ok):
            ctx.fail("C14-runjobs-exception-double-count", "Process.run_jobs drops the result of a good job when another job raised", case,
                     {"missing_job_numbers": missing, "yielded": ob["yielded"]})
        else:
            ctx.fail("C14-runjobs-results", "results yielded by Process.run_jobs, keyed by job number, are not the serial results", case,
                     {"got": got_ok, "want": want_ok, "odd": odd})
    if got_err != sorted(bad):
        ctx.fail("C14-runjobs-exception-items", "the exceptions yielded by Process.run_jobs are not those of the failing jobs", case,
                 {"got": got_err, "want": sorted(bad)})
    want_raise = "AssertionError" if bad else None
    if ob["raised"] != want_raise:
        ctx.fail("C14-runjobs-exception", "a failing job is not reported by Process.run_jobs (AssertionError at the end)", case,
                 {"got": ob["raised"], "want": want_raise})
    if ob["evaluated"] != sorted(numbers):
        ctx.fail("C14-runjobs-evaluation-count", "a job was not performed exactly once", case,
                 {"evaluated": ob["evaluated"], "jobs": numbers})


def one_runjobs_case(ctx, case, label="gen"):
    P, js = case["P"], case["js"]
    # the fair continuation is written out, so that model and code can be started at the same schedule position
    schedule = case["sched"] + list(range(P + 1)) * (4 * len(js) + 4 * P + 10)
    script, ob = real_runjobs_session(P, js, schedule, case.get("numbers"))
    numbers = case.get("numbers") or list(range(len(js)))
    # the model starts where the workers start (all jobs are on the shared queue by then)
    req = {"p": "C14", "q": "run_jobs", "P": P, "fuel": 400, "js": [[o, n] for n, o in zip(numbers, js)],
           "sched": schedule[ob["pos_at_start"]:]}
    ans = ctx.lean.ask(req)
    if "driver_error" in ans:
        ctx.disagree("C14.driver", case, None, ans)
        return
    reordered = ob["eval_order"] != numbers or [it[1] for it in ob["yielded"] if it[0] == "ok"] != [n for n in numbers if js[numbers.index(n)] == "ok"]
    ctx.case({"kind": "run_jobs", "P": P, "js": js, "sched": case["sched"], "numbers": case.get("numbers")},
             nontrivial=bool(P >= 2 and len(js) >= 2 and (reordered or "err" in js)),
             sample={"kind": "run_jobs", "P": P, "js": js, "sched": case["sched"], "yielded": ob["yielded"], "raised": ob["raised"]})
    ctx.hit(f"run_jobs:P={P}")
    if "err" in js:
        ctx.hit("run_jobs:with-failure")
    if ob["stale_fired"]:
        ctx.hit("run_jobs:stale-empty-answer")
    if [it[1] for it in ob["yielded"] if it[0] == "ok"] != sorted(it[1] for it in ob["yielded"] if it[0] == "ok"):
        ctx.hit("run_jobs:yielded-out-of-number-order")
    if ob["worker_errors"]:
        ctx.fail("C14-worker-crash", "a worker loop crashed", case, ob["worker_errors"])

    def canon_model(it):
        return ["ok", it[1], list(script.value(it[1]))] if it[0] == "ok" else ["err", it[1]]

    impl = {"returned": not ob["stuck"], "items": sorted(map(json.dumps, ob["yielded"])),
            "raised": ob["raised"] == "AssertionError", "evaluated": ob["evaluated"]}
    model = {"returned": ans["done"], "items": sorted(json.dumps(canon_model(it)) for it in ans["yielded"]),
             "raised": ans["raised"] and ans["done"], "evaluated": sorted(numbers[i] for i in ans["performed"] if i < len(numbers))}
    if ob["stuck"] or not ans["done"]:
        impl.pop("items"), model.pop("items"), impl.pop("evaluated"), model.pop("evaluated")
    if ob["raised"] not in (None, "AssertionError"):
        impl["raised"] = ob["raised"]
    if impl != model:
        ctx.disagree("C14.run_jobs", dict(case, label=label), impl, model)
    if not ob["stuck"] and ans["done"]:
        soft(ctx, "run_jobs: order in which the results were yielded", [canon_model(it) for it in ans["yielded"]] == ob["yielded"])
        soft(ctx, "run_jobs: order in which the jobs were performed", [numbers[i] if i < len(numbers) else i for i in ans["performed"]] == ob["eval_order"])
    runjobs_oracle(ctx, script, ob, dict(case, label=label))
    runjobs_shutdown_check(ctx, dict(case, label=label), ob, ans)


# ---------------------------------------------------------------------------------------------
# Initializer.samples_from_model(n_cores > 1)


class PointFitness(Fitness):
    """scripted figure of merit of a parameter vector; the outcome is a function of the vector alone"""

    def __init__(self, fail_unexpected=False, sched=None):
        self.fail_unexpected = fail_unexpected
        self.calls = []
        self.sched = sched

    @staticmethod
    def bucket(parameters):
        return int(abs(parameters[0]) * 1e4) % 10

    def serial(self, parameters):
        """('value', x) | ('rejected', None) | ('raises', None)"""
        b = self.bucket(parameters)
        if b == 0:
            return ("rejected", None)  # nan figure of merit
        if b == 1:
            return ("rejected", None)  # FitException
        if b == 2 and self.fail_unexpected:
            return ("raises", None)
        return ("value", -sum((p - 1.0) ** 2 for p in parameters))

    def __call__(self, parameters):
        self.calls.append(tuple(parameters))
        b = self.bucket(parameters)
        if b == 0:
            return float("nan")
        if b == 1:
            raise af_exc.FitException("resample")
        if b == 2 and self.fail_unexpected:
            raise ValueError("unexpected failure of the likelihood")
        return -sum((p - 1.0) ** 2 for p in parameters)


def real_init_session(n_cores, total_points, seed, schedule, fail_unexpected):
    import autofit as af

    sched = S.Sched()
    fitness = PointFitness(fail_unexpected, sched)
    batches = []

    class TracedPool(SneakyPool):
        """records each map call of the initializer; the work is done by the real SneakyPool.map"""

        def map(self, function, args_list, log_info=True):
            args_list = list(args_list)
            rec = {"points": [tuple(a[1]) for a in args_list], "pos": sched.pos, "yielded": []}
            batches.append(rec)
            for r in SneakyPool.map(self, function, args_list, log_info=log_info):
                rec["yielded"].append(r)
                yield r

    model = af.Model(af.Gaussian)
    random.seed(seed)
    result, raised, stuck = None, None, False
    original = initializer_module.SneakyPool
    initializer_module.SneakyPool = TracedPool
    try:
        with S.fake_multiprocessing(sched):
            sched.begin(schedule)
            try:
                result = af.InitializerPrior().samples_from_model(
                    total_points=total_points, model=model, fitness=fitness, paths=None, n_cores=n_cores,
                    test_mode_samples=False)
            except S.Abort:
                stuck = True
            except Exception as e:  # noqa
                raised = f"{type(e).__name__}"
            finally:
                sched.shutdown()
    finally:
        initializer_module.SneakyPool = original
    return model, fitness, batches, result, raised, stuck


def one_init_case(ctx, case, label="gen"):
    n_cores, total, seed, schedule, fu = case["n_cores"], case["total_points"], case["seed"], case["sched"], case["fail_unexpected"]
    model, fitness, batches, result, raised, stuck = real_init_session(n_cores, total, seed, schedule, fu)
    case = dict(case, label=label)
    # --- model: the same batches (outcome of every drawn point as the serial script gives it)
    uid, js_batches, values = 0, [], {}
    for k, b in enumerate(batches):
        js = []
        for p in b["points"]:
            kind, v = fitness.serial(p)
            values[uid] = v if kind != "rejected" else None
            js.append(["err" if kind == "raises" else "ok", uid])
            uid += 1
        end = batches[k + 1]["pos"] if k + 1 < len(batches) else len(schedule)
        js_batches.append({"js": js, "sched": [abs(e) for e in schedule[b["pos"]:end]]})
    ans = ctx.lean.ask({"p": "C14", "q": "map", "P": n_cores, "fuel": 400, "batches": js_batches})
    if "driver_error" in ans:
        ctx.disagree("C14.driver", case, None, ans)
        return
    n_rej = sum(1 for v in values.values() if v is None)
    ctx.case({"kind": "init", **{k: case[k] for k in ("n_cores", "total_points", "seed", "sched", "fail_unexpected")}},
             nontrivial=bool(len(batches) >= 2 and n_cores >= 2),
             sample={"kind": "samples_from_model", "n_cores": n_cores, "total_points": total, "batches": [len(b["points"]) for b in batches],
                     "rejected_points": n_rej, "raised": raised})
    ctx.hit(f"init:n_cores={n_cores}")
    ctx.hit("init:with-rejected-points" if n_rej else "init:no-rejected-point")
    if raised:
        ctx.hit("init:raised")
    if stuck:
        ctx.fail("C14-map-no-return", "samples_from_model does not return although every process is served fairly", case)
        return
    for k, b in enumerate(batches):
        m = ans["batches"][k]
        want = [values[u] for u in m["yielded"]]
        if b["yielded"] != want:
            ctx.disagree("C14.init.batch", dict(case, batch=k), b["yielded"], want)
    # --- oracle: every returned point carries the figure of merit of *its own* parameters; points are
    # evaluated once; a failing evaluation is reported
    calls = collections.Counter(fitness.calls)
    drawn = [p for b in batches for p in b["points"]]
    if sorted(calls.elements()) != sorted(drawn):
        ctx.fail("C14-init-evaluation-count", "a drawn point was not evaluated exactly once", case,
                 {"drawn": len(drawn), "evaluated": sum(calls.values())})
    any_raises = any(fitness.serial(p)[0] == "raises" for p in drawn)
    if any_raises:
        if raised != "ValueError":
            ctx.fail("C14-init-exception", "an unexpected failure of the likelihood in a worker is not reported by samples_from_model", case,
                     {"raised": raised})
        return
    if raised or result is None:
        ctx.fail("C14-init-raised", "samples_from_model raised although no evaluation fails", case, {"raised": raised})
        return
    units, params, foms = result
    if not (len(units) == len(params) == len(foms) == total):
        ctx.fail("C14-init-count", "samples_from_model did not return total_points samples", case, {"returned": len(foms)})
    for u, p, f in zip(units, params, foms):
        kind, want = fitness.serial(p)
        if kind != "value" or f != want:
            ctx.fail("C14-map-arrival-order" if f in [fitness.serial(q)[1] for q in drawn] else "C14-init-pairing",
                     "samples_from_model pairs a figure of merit with parameters it was not computed from", case,
                     {"parameters": list(p), "figure_of_merit": f, "serial_figure_of_merit": want})
            break
        if list(model.vector_from_unit_vector(u)) != list(p):
            ctx.fail("C14-init-pairing", "unit vector and parameter vector of a sample do not correspond", case)
            break
    accepted = [p for p in drawn if fitness.serial(p)[0] == "value"]
    if [tuple(p) for p in params] != accepted[:len(params)]:
        ctx.fail("C14-init-order", "returned samples are not the accepted points in the order they were drawn", case)


# ---------------------------------------------------------------------------------------------
# real processes (OS scheduling; slow inputs force the completion order)

_SLOW = {}


def slow_function(args):
    (uid,) = args
    time.sleep(_SLOW.get(uid, 0.0))
    if _SCRIPT.outcome[uid] == "err":
        raise ScriptedError(uid)
    return _SCRIPT.value(uid)


class SlowJob(AbstractJob):
    def __init__(self, number, delay, fails):
        super().__init__(number=number)
        self.delay, self.fails = delay, fails

    def perform(self, *args):
        time.sleep(self.delay)
        if self.fails:
            raise ScriptedError(self.number)
        return ScriptResult(self.number, ("value", self.number, self.number * 7 + 3))


def _watchdog(fn, seconds):
    """run fn() in a daemon thread; (finished, exception)"""
    import threading

    box = {"done": False, "exc": None}

    def go():
        try:
            fn()
        except BaseException as e:  # noqa
            box["exc"] = f"{type(e).__name__}:{str(e)[:80]}"
        box["done"] = True

    t = threading.Thread(target=go, daemon=True)
    t.start()
    t.join(seconds)
    return box["done"], box["exc"]


def _reap():
    """no process of a pool may outlive the check (a pool stops its processes only in __del__)"""
    import multiprocessing

    gc.collect()
    time.sleep(0.05)
    for p in multiprocessing.active_children():
        p.join(0.6)
        if p.is_alive():
            p.terminate()


def real_process_runs(ctx, n):
    global _SCRIPT
    rng = ctx.rng
    for k in range(n):
        P = rng.choice([2, 3])
        script = Script()
        _SCRIPT = script
        batches = []
        for b in range(rng.choice([1, 2])):
            size = rng.randint(2, 6)
            js = ["err" if rng.random() < 0.12 else "ok" for _ in range(size)]
            batches.append(js)
        _SLOW.clear()
        for b, js in enumerate(batches):
            for i, o in enumerate(js):
                script.outcome[b * 100 + i] = o
                _SLOW[b * 100 + i] = rng.choice([0.0, 0.0, 0.02, 0.05]) if i else 0.06
        case = {"kind": "map-real-processes", "P": P, "batches": batches, "delays": {str(k_): v for k_, v in _SLOW.items()}}
        results = []

        def session():
            pool = SneakyPool(processes=P, fitness=None, paths=None)
            for b, js in enumerate(batches):
                uids = [b * 100 + i for i in range(len(js))]
                rec = {"uids": uids, "out": [], "raised": None, "returned": False}
                results.append(rec)
                try:
                    for r in pool.map(slow_function, [(u,) for u in uids], log_info=False):
                        rec["out"].append(r)
                except ScriptedError as e:
                    rec["raised"] = e.uid
                except Exception as e:  # noqa
                    rec["raised"] = f"Other:{type(e).__name__}:{str(e)[:60]}"
                rec["returned"] = True

        finished, crash = _watchdog(session, 20)
        for rec in results:
            uids, out, raised = rec["uids"], rec["out"], rec["raised"]
            want_out, want_exc = script.serial(uids)
            ctx.case(case, nontrivial=True)
            ctx.hit("real-processes:map")
            if not rec["returned"]:
                ctx.fail("C14-map-no-return", "SneakyPool.map (real processes) did not return within 20 s", case, {"got": out})
                continue
            if out != want_out:
                ctx.fail("C14-map-arrival-order" if sorted(map(repr, out)) == sorted(repr(script.value(u)) for u in uids if script.outcome[u] == "ok")
                         else "C14-map-results",
                         "SneakyPool.map (real processes) does not return the serial results by position", case, {"got": out, "want": want_out})
            if raised != want_exc:
                ctx.fail("C14-map-exception", "SneakyPool.map (real processes) does not report the failing evaluation", case,
                         {"got": raised, "want": want_exc})
        if crash:
            ctx.fail("C14-map-crash", "a SneakyPool session (real processes) crashed", case, crash)
        _reap()
    for k in range(n):
        P = rng.choice([2, 3])
        size = rng.randint(2, 7)
        fails = [rng.random() < 0.2 for _ in range(size)]
        delays = [rng.choice([0.0, 0.02, 0.05]) for _ in range(size)]
        case = {"kind": "run_jobs-real-processes", "P": P, "fails": fails, "delays": delays}
        jobs = [SlowJob(i, delays[i], fails[i]) for i in range(size)]
        out, state = [], {"raised": None}

        def go():
            try:
                for r in Process.run_jobs(jobs, number_of_cores=P + 1):
                    out.append(canon_item(r))
            except AssertionError:
                state["raised"] = "AssertionError"

        finished, crash = _watchdog(go, 20)
        raised = state["raised"]
        ctx.case(case, nontrivial=True)
        ctx.hit("real-processes:run_jobs")
        if not finished:
            ctx.fail("C14-runjobs-stale-empty", "Process.run_jobs (real processes) did not return within 20 s", case, {"yielded": out})
            _reap()
            continue
        if crash:
            ctx.fail("C14-runjobs-crash", "Process.run_jobs (real processes) crashed", case, crash)
        got_ok = sorted(it[1] for it in out if it[0] == "ok")
        got_err = sorted(it[1] for it in out if it[0] == "err")
        if got_ok != [i for i in range(size) if not fails[i]]:
            ctx.fail("C14-runjobs-exception-double-count" if any(fails) else "C14-runjobs-results",
                     "Process.run_jobs (real processes) does not yield every good job's result once", case, {"yielded": out})
        if got_err != [i for i in range(size) if fails[i]] or (raised == "AssertionError") != any(fails):
            ctx.fail("C14-runjobs-exception", "Process.run_jobs (real processes) does not report the failing jobs", case,
                     {"yielded": out, "raised": raised})
        _reap()


# ---------------------------------------------------------------------------------------------
# generators


def gen_schedule(rng, P, n, allow_stale=False):
    """actor choices: 0 caller, 1..P workers; negative = stale empty() answer"""
    actors = list(range(P + 1))
    kind = rng.choice(["uniform", "uniform", "bursts", "slow-worker", "reverse-workers", "caller-first", "round-robin", "caller-starved"])
    sched = []
    if kind == "uniform":
        sched = [rng.choice(actors) for _ in range(rng.randint(0, 8 * n + 12))]
    elif kind == "bursts":
        while len(sched) < rng.randint(4, 8 * n + 12):
            sched += [rng.choice(actors)] * rng.randint(1, 6)
    elif kind == "slow-worker":
        slow = rng.randint(1, P)
        others = [a for a in actors if a != slow]
        sched = [rng.choice(others) for _ in range(rng.randint(6, 10 * n + 12))]
    elif kind == "reverse-workers":
        sched = [0] * (n + rng.randint(0, 2))
        for w in range(P, 0, -1):
            sched += [w] * (2 * ((n + P - 1) // P) + rng.randint(0, 1))
            sched += [0] * rng.randint(0, P + 1)
    elif kind == "caller-first":
        sched = [0] * (n + rng.randint(0, 3 * P))
        ws = list(range(1, P + 1))
        rng.shuffle(ws)
        for w in ws:
            sched += [w] * rng.randint(1, 2 * n + 2)
    elif kind == "caller-starved":
        sched = [0] * rng.randint(0, n)
        sched += [rng.randint(1, P) for _ in range(rng.randint(4, 6 * n + 8))]
    if allow_stale and sched and rng.random() < 0.5:
        for _ in range(rng.randint(1, 3)):
            i = rng.randrange(len(sched))
            if sched[i] != 0:
                sched[i] = -abs(sched[i])
    return sched


def gen_outcomes(rng, n):
    style = rng.random()
    if n == 0:
        return []
    if style < 0.55:
        return ["ok"] * n
    if style < 0.75:
        js = ["ok"] * n
        js[rng.randrange(n)] = "err"
        return js
    if style < 0.8:
        return ["err"] * n
    return ["err" if rng.random() < 0.25 else "ok" for _ in range(n)]


def gen_size(rng):
    return rng.choice([0, 1, 2, 2, 3, 3, 4, 5, 6, 7, 8, 10, 12])


def gen_map_case(rng):
    P = rng.choice([1, 2, 2, 3, 3, 4])
    batches = []
    for _ in range(rng.choice([1, 1, 2, 3, 4])):
        n = gen_size(rng)
        batches.append({"js": gen_outcomes(rng, n), "sched": gen_schedule(rng, P, n)})
    return {"kind": "map", "P": P, "mode": rng.choice(MODES), "batches": batches}


def gen_runjobs_case(rng):
    P = rng.choice([1, 2, 2, 3, 4])
    n = gen_size(rng)
    case = {"kind": "run_jobs", "P": P, "js": gen_outcomes(rng, n), "sched": gen_schedule(rng, P, n, allow_stale=rng.random() < 0.3)}
    if rng.random() < 0.3:  # job numbers are labels, not positions
        case["numbers"] = rng.sample(range(0, 3 * n + 5), n)
    return case


def gen_init_case(rng):
    n_cores = rng.choice([2, 2, 3, 4])
    total = rng.choice([2, 3, 5, 8, 11])
    return {"kind": "init", "n_cores": n_cores, "total_points": total, "seed": rng.randrange(10 ** 9),
            "sched": gen_schedule(rng, n_cores, total * 2), "fail_unexpected": rng.random() < 0.2}


def dispatch(ctx, case, label="gen"):
    kind = case.get("kind")
    try:
        if kind == "map":
            one_map_case(ctx, case, label)
        elif kind == "run_jobs":
            one_runjobs_case(ctx, case, label)
        elif kind == "init":
            one_init_case(ctx, case, label)
        elif kind == "fair":
            one_fair_case(ctx, case, label)
        elif kind == "life":
            one_life_case(ctx, case, label)
        elif kind == "caller":
            import c16
            c16.install_pool()
            px = _CallerCtx(ctx)
            c16.one_case(px, c16.probe_cfg(px), case["c16_case"], label="c14-replay")
        elif kind == "emcee":
            emcee_parallel_equals_serial(ctx, 2)
        else:
            ctx.notes.setdefault("skipped_replays", []).append(str(kind))
    except Exception as e:  # the harness could not interpret what the code did: the tie is broken for this case
        import traceback

        ctx.disagree("C14.harness-could-not-interpret", dict(case, label=label),
                     f"{type(e).__name__}: {e}", traceback.format_exc()[-600:])


def exhaustive_small(ctx):
    """every schedule prefix over {caller, w0, w1} of length 7 after the submissions, 2 workers, 3 inputs"""
    import itertools

    count = 0
    for tail in itertools.product([0, 1, 2], repeat=ctx.n(5, 7)):
        for js in (["ok", "ok", "ok"], ["ok", "err", "ok"]):
            dispatch(ctx, {"kind": "map", "P": 2, "mode": "plain", "batches": [{"js": js, "sched": [0, 0, 0] + list(tail)},
                                                                                {"js": ["ok", "ok"], "sched": []}]}, "exhaustive")
            count += 1
    ctx.notes["exhaustive_small_schedules"] = count


def run(ctx):
    ctx.rule = RULE
    ctx.assumptions = [
        "multiprocessing.Queue is a FIFO whose empty() may report a stale True; a process is a sequential actor "
        "(real code run in a thread, one queue operation per scheduler turn); pickling of jobs/results is not modelled",
        "the function mapped is deterministic and has no cross-talk between evaluations (scripted outcomes)",
        "termination of map under fair schedules is a theorem (bound in fair rounds); for run_jobs it is observed (fair "
        "round-robin continuation of every schedule), not proved; join timeouts / OS teardown of processes are not modelled",
    ]
    for f in sorted((VERIF / "corpus" / "C14").glob("*.json")):
        dispatch(ctx, json.loads(f.read_text()), f.name)
    t0 = time.time()
    for k in range(ctx.n(800, 12000)):
        dispatch(ctx, gen_map_case(ctx.rng))
    for k in range(ctx.n(500, 7000)):
        dispatch(ctx, gen_runjobs_case(ctx.rng))
    for k in range(ctx.n(80, 800)):
        dispatch(ctx, gen_init_case(ctx.rng))
    for k in range(ctx.n(60, 600)):
        dispatch(ctx, gen_fair_case(ctx.rng))
    for k in range(ctx.n(150, 2000)):
        dispatch(ctx, gen_life_case(ctx.rng))
    exhaustive_small(ctx)
    ctx.notes["scheduled_sessions_wall_s"] = round(time.time() - t0, 1)
    real_process_runs(ctx, ctx.n(3, 40))
    _reap()
    callers_keyed_by_number(ctx, ctx.n(14, 120))
    emcee_parallel_equals_serial(ctx, ctx.n(1, 4))


# ---------------------------------------------------------------------------------------------
# the callers: results keyed by job number (grid search, sensitivity), emcee through the pool


ORDER_CLASSIFIERS = ("C16-sens-order", "C16-sens-entry", "C16-result-order", "C16-native-entry", "C16-builder-order",
                     "C16-csv-row", "C16-sens-csv-row", "C16-sens-label", "C16-sensitivity-label-order")


class _CallerCtx:
    """the grid / sensitivity cases of harness/c16.py (jobs completed in a permuted order) seen from C14: only what
    concerns the attribution of results to jobs is reported here (everything else is C16's subject)"""

    def __init__(self, ctx):
        self._ctx = ctx

    def __getattr__(self, name):
        return getattr(self._ctx, name)

    def hit(self, what, *a, **k):
        pass

    def case(self, *a, **k):
        self._ctx.evaluations += 1

    def disagree(self, *a, **k):
        self._ctx.hit("callers:c16-correspondence-remark")

    def fail(self, classifier, what, case, detail=None):
        if classifier in ORDER_CLASSIFIERS:
            self._ctx.fail("C14-caller-attributes-result-to-wrong-job",
                           "with jobs completing out of order a grid search / sensitivity result is attributed to another job "
                           f"than the one that produced it ({classifier}: {what})", {"kind": "caller", "c16_case": case}, detail)
        else:
            self._ctx.hit("callers:c16-remark:" + classifier)


def callers_keyed_by_number(ctx, n):
    import c16

    c16.install_pool()
    px = _CallerCtx(ctx)
    try:
        cfg = c16.probe_cfg(px)
    except Exception as e:  # noqa
        ctx.hit("callers:probe-raised:" + type(e).__name__)
        return
    for k in range(n):
        case = c16.gen_sens_case(ctx.rng, 60) if k % 2 == 0 else c16.gen_grid_case(ctx.rng, 60)
        case["cores"] = max(int(case.get("cores") or 1), 3)
        case["perm_seed"] = ctx.rng.randrange(1 << 30)
        try:
            c16.one_case(px, cfg, case, label="c14")
            ctx.hit("callers:" + case["kind"])
        except Exception as e:  # noqa
            ctx.hit("callers:case-raised:" + type(e).__name__)


def emcee_parallel_equals_serial(ctx, n):
    """an Emcee fit through the pool (2 processes) records exactly what the serial fit records for the same
    generator state: chain and log probabilities, element by element"""
    import contextlib
    import io
    import numpy as np
    import autofit as af
    import vlib
    import common

    class Quad(af.Analysis):
        def log_likelihood_function(self, instance):
            return -0.5 * ((instance.a - 0.3) ** 2 / 0.04 + (instance.b - 1.2) ** 2 / 0.25)

    for k in range(n):
        model = af.Model(vlib.P2, a=af.GaussianPrior(mean=0.0, sigma=1.0), b=af.LogUniformPrior(lower_limit=0.1, upper_limit=10.0))
        outs = []
        try:
            for cores in (1, 2):
                seed = 1234 + k
                random.seed(seed)
                np.random.seed(seed)
                from autofit.non_linear.search.mcmc.auto_correlations import AutoCorrelationsSettings
                search = af.Emcee(nwalkers=6, nsteps=40, number_of_cores=cores,
                                  auto_correlation_settings=AutoCorrelationsSettings(check_for_convergence=False, check_size=8))
                with contextlib.redirect_stdout(io.StringIO()), contextlib.redirect_stderr(io.StringIO()):
                    r = search.fit(model=model, analysis=Quad())
                si = r.search_internal
                outs.append((np.asarray(si.get_chain()), np.asarray(si.get_log_prob())))
        except Exception as e:  # noqa
            ctx.hit("emcee-parallel:raised:" + type(e).__name__)
            continue
        finally:
            _reap()
        ctx.hit("emcee-parallel-vs-serial")
        (c1, l1), (c2, l2) = outs
        if c1.shape != c2.shape or not np.array_equal(c1, c2) or not np.array_equal(l1, l2, equal_nan=True):
            first = None
            if c1.shape == c2.shape and l1.shape == l2.shape:
                d = np.argwhere(~np.isclose(l1, l2, rtol=0, atol=0, equal_nan=True))
                first = [int(x) for x in d[0]] if len(d) else None
            ctx.fail("C14-emcee-parallel-differs", "an Emcee fit through the process pool records other values than the serial fit "
                     "with the same generator state", {"kind": "emcee", "seed": 1234 + k},
                     {"first_difference_at": first, "serial": None if first is None else float(l1[tuple(first)]),
                      "parallel": None if first is None else float(l2[tuple(first)])})


def replay(ctx, payload):
    case = payload.get("case") or (payload.get("disagreements") or [{}])[0].get("case")
    dispatch(ctx, case, "replay")
