"""C03 model growth — correspondence clauses for the parts of the gate that are *computed* in Lean
(`AFModel/GateComp.lean`): the recursion tree of `instance_for_arguments` from the assertion-carrying
composition, the sequence of `check_assertions` calls, the routes and their flags, and how the comparison
operators build assertion objects.

Kept in its own file so that `harness/c03.py` only gains a few call lines."""
import contextlib
import math
import random as pyrandom

from common import f2h
import extract_comp as X
import c01

from autofit import exc
from autofit.mapper.prior.abstract import Prior
from autofit.mapper.prior_model.abstract import AbstractPriorModel
from autofit.mapper.prior.arithmetic.compound import CompoundPrior, ModifiedPrior


# ---------------------------------------------------------------------------------------------
# observing the real recursion: which nodes run `check_assertions`, in which order, with which verdicts


class Trace:
    def __init__(self):
        self.depth = 0
        self.calls = []  # per top-level check_assertions call: list of verdicts (or None when evaluation raised)
        self.alive = False


@contextlib.contextmanager
def traced():
    """wrap AbstractPriorModel.check_assertions (the method the property's anchors name) for the duration of one
    real call. Calls nested inside the evaluation of an assertion (the assertion objects are prior models
    themselves) are not part of the walk over the composition and are not recorded."""
    t = Trace()
    orig = AbstractPriorModel.__dict__.get("check_assertions")
    if orig is None:
        yield t
        return

    def hook(self, arguments, *a, **k):
        t.alive = True
        if t.depth > 0:
            return orig(self, arguments, *a, **k)
        t.depth += 1
        try:
            vs = []
            for asrt in list(getattr(self, "_assertions", []) or []):
                if asrt is False:
                    vs.append(False)
                elif asrt is True:
                    vs.append(True)
                else:
                    try:
                        vs.append(bool(asrt.instance_for_arguments(arguments)))
                    except exc.FitException:
                        vs.append(False)
                    except Exception:
                        vs = None
                        break
            t.calls.append(vs)
            return orig(self, arguments, *a, **k)
        finally:
            t.depth -= 1

    AbstractPriorModel.check_assertions = hook
    try:
        yield t
    finally:
        AbstractPriorModel.check_assertions = orig


def shape_of(tree):
    return {"n": len(tree["a"]), "c": [shape_of(c) for c in tree["c"]]}


def outcome_of(f, *a, **k):
    try:
        return {"ok": X.canon_inst(X.inst_of(f(*a, **k)))}
    except exc.PriorLimitException:
        return {"err": "priorLimit"}
    except exc.FitException:
        return {"err": "fit"}
    except AssertionError:
        return {"err": "length"}
    except Exception as e:
        return {"err": "other:" + type(e).__name__ + ":" + str(e)[:100]}


def model_outcome(ans):
    return {"ok": X.canon_inst(ans["ok"])} if "ok" in ans else {"err": ans.get("err")}


def compare_outcome(ctx, clause, case, impl, m_out, loose):
    """True when model and code agree on instance / exception kind (and on the instance)"""
    if ("err" in impl) != ("err" in m_out) or ("err" in impl and impl["err"] != m_out["err"]):
        if "ok" in m_out and c01.contains_missing_or_domain(m_out["ok"]) and "err" in impl and impl["err"].startswith("other"):
            return True
        ctx.disagree(clause + ".outcome", case, impl.get("err", "instance"), m_out.get("err", "instance"))
        return False
    if "ok" in impl:
        d = X.inst_diff(impl["ok"], m_out["ok"], 4 if loose else 0)
        if d and not c01.arith_domain(impl["ok"], m_out["ok"]):
            ctx.disagree(clause + ".instance", case, {"diff_at": d[0], "impl": d[1]}, {"model": d[2]})
            return False
    return True


def comp_clause(ctx, model, comp, lims, atree, v, ignore, case, loose):
    """the gate computed by Lean from the composition *with* its assertions (no assertion list, no tree
    supplied by the harness) against the real instance_from_vector; the recursion tree Lean computes against
    the one read from the object graph; the sequence of check_assertions calls the real code makes (with the
    verdict of every assertion of every visited node, evaluated by the real assertion objects) against the
    model's trace"""
    ans = ctx.lean.ask({"p": "C03", "kind": "comp", "comp": comp, "lims": lims, "v": [f2h(x) for x in v], "ignore": ignore})
    if "driver_error" in ans:
        ctx.disagree("C03.comp.driver", case, None, ans)
        return
    with traced() as t:
        impl = outcome_of(model.instance_from_vector, v, ignore_prior_limits=ignore)
    m_out = model_outcome(ans)
    compare_outcome(ctx, "C03.comp", case, impl, m_out, loose)
    want_shape = [shape_of(atree)]
    if ans.get("trees") != want_shape:
        ctx.disagree("C03.comp.tree", case, want_shape, ans.get("trees"))
    if impl.get("err", "").startswith("other") or any(c is None for c in t.calls):
        ctx.hit("trace:skipped-other-exception")
        return
    if not t.alive and not ignore and "err" not in impl and any(n["n"] for n in _flat(want_shape)):
        ctx.hit("trace:hook-not-called")  # check_assertions is no longer the place where the check happens
        return
    # Order-insensitive comparison (checking children before their parent would be a harmless change): when an
    # instance is produced every node of the model's tree was checked exactly as often as it occurs, with the
    # model's verdicts; when the fit exception is raised the checks made are among the model's and one failed.
    # Nodes without assertions are left out on both sides (not calling check_assertions for them is harmless).
    full = sorted(tuple(c_) for c_ in ans.get("full", []) if c_)
    real = sorted(tuple(c_) for c_ in t.calls if c_)
    if "ok" in impl and not ignore:
        if real != full:
            ctx.disagree("C03.comp.trace", case, t.calls, ans.get("full"))
            return
    elif impl.get("err") == "fit":
        rest = list(full)
        for c_ in real:
            if c_ in rest:
                rest.remove(c_)
            else:
                ctx.disagree("C03.comp.trace", case, t.calls, ans.get("full"))
                return
        if not any(False in c_ for c_ in real):
            ctx.disagree("C03.comp.trace-no-failure", case, t.calls, ans.get("trace"))
            return
    elif real:
        ctx.disagree("C03.comp.trace-not-empty", case, t.calls, [])
        return
    ctx.hit("trace:" + ("empty" if not t.calls else "cut" if any(False in c for c in t.calls) else "full"))
    ctx.hit("trace-order:" + ("same" if t.calls == ans.get("trace") else "differs"))
    if len(t.calls) > len({id(x) for x in _nodes(model)}):
        ctx.hit("trace:shared-node-visited-twice")


_skip = [0]


def comp_clause_sampled(ctx, model, comp, lims, atree, v, ignore, case, loose):
    """every case but the bulk of the chain-order vectors (one in four of those)"""
    if case.get("kind") == "chain-order":
        _skip[0] += 1
        if _skip[0] % 4:
            return
    comp_clause(ctx, model, comp, lims, atree, v, ignore, case, loose)


def _flat(shapes):
    for s in shapes:
        yield s
        yield from _flat(s["c"])


def _kids(m):
    if isinstance(m, CompoundPrior):
        return [m._left, m._right]
    if isinstance(m, ModifiedPrior):
        return [m.prior]
    return [v for k, v in m.__dict__.items() if not k.startswith("_")]


def _nodes(m, seen=None):
    seen = {} if seen is None else seen
    if isinstance(m, AbstractPriorModel) and id(m) not in seen:
        seen[id(m)] = m
        for k in _kids(m):
            _nodes(k, seen)
    return seen.values()


# ---------------------------------------------------------------------------------------------
# generator growth: assertions on compound / modified priors and arrays of the tree, a component reachable twice


def _operand_object_ids(prog, H):
    """ids of every object that is (part of) an operand of an assertion: an assertion attached to such an object
    would be enforced while the *other* assertion is evaluated (not modelled, not generated)"""
    out = set()

    def walk(o):
        if id(o) in out:
            return
        out.add(id(o))
        if isinstance(o, CompoundPrior):
            walk(o._left)
            walk(o._right)
        elif isinstance(o, ModifiedPrior):
            walk(o.prior)

    for s in prog:
        if s["op"] == "assert" and "operands" in s["expr"]:
            for o in s["expr"]["operands"]:
                if isinstance(o, dict):
                    walk(H[o["h"]])
    return out


def grow_program(rng, prog, run_program):
    """more places for assertions: (1) on compound / modified priors and arrays that are part of the tree,
    (2) the root wrapped in a list collection that holds one of its own components a second time"""
    prog = list(prog)
    root_stmt = prog.pop()
    try:
        H = run_program(prog + [root_stmt])
    except Exception:
        return prog + [root_stmt]
    root = H["root"]
    in_tree = {id(m) for m in _nodes(root)}
    in_model = {p.id for p in root.priors}
    priors = [s["h"] for s in prog if s["op"] == "prior" and H[s["h"]].id in in_model]
    if not priors:
        return prog + [root_stmt]
    busy = _operand_object_ids(prog, H)
    targets = [s["h"] for s in prog if s["op"] in ("arith", "modif", "array") and id(H[s["h"]]) in in_tree and id(H[s["h"]]) not in busy]
    arrays = [h for h in targets if h.startswith("a")]
    r = rng.random()
    if targets and (r < 0.6 or arrays):
        for j in range(rng.choice([1, 1, 2])):
            a, b = rng.choice(priors), rng.choice(priors)
            op = rng.choice(["<", "<=", ">", ">="])
            right = {"h": b} if rng.random() < 0.7 else rng.uniform(-40, 40)
            tgt = rng.choice(arrays) if arrays and j == 0 else rng.choice(targets)
            prog.append({"op": "assert", "h": tgt, "expr": {"ops": [op], "operands": [{"h": a}, right]}})
    if r > 0.4:
        comps = [s["h"] for s in prog if s["op"] in ("model", "coll_list", "coll_dict", "coll_kw") and id(H[s["h"]]) in in_tree and s["h"] != root_stmt["h"]]
        if comps:
            h = "cshare"
            items = [{"h": root_stmt["h"]}, {"h": rng.choice(comps)}]
            if rng.random() < 0.5:
                items.reverse()
            prog.append({"op": "coll_list", "h": h, "items": items})
            if rng.random() < 0.6:
                a, b = rng.choice(priors), rng.choice(priors)
                prog.append({"op": "assert", "h": h, "expr": {"ops": [rng.choice(["<", ">="])], "operands": [{"h": a}, {"h": b}]}})
            root_stmt = {"op": "root", "h": h}
    prog.append(root_stmt)
    return prog


# ---------------------------------------------------------------------------------------------
# routes and flags


def _ask_route(ctx, route, comp, lims, v, ignore):
    return ctx.lean.ask({"p": "C03", "kind": "route", "route": route, "comp": comp, "lims": lims,
                         "v": [f2h(float(x)) for x in v], "ignore": ignore})


def route_clause(ctx, model, comp, lims, priors, prog, prog_asserts, H, base_vectors, eval_assert_plain, loose):
    """every route to an instance, with its flag, against the Lean `gateRoute`; the oracle restates the property
    on the real outcome: ignoring always yields an instance; otherwise an instance iff (the limits, on the routes
    that take a vector or unit vector) and every assertion hold for the physical values"""
    rng = ctx.rng
    if not priors:
        return
    root_ids = {id(model)}

    def verdicts_for(phys):
        args = {p: x for p, x in zip(priors, phys)}
        out = []
        for s in prog_asserts:
            out.append((bool(eval_assert_plain(s["expr"], H, args)), id(H[s["h"]]) in root_ids))
        return out

    def judge(route, impl, phys, ignore, checks_limits, case):
        try:
            vs = verdicts_for(phys)
        except Exception:
            ctx.hit("route-oracle-undefined")
            return
        lim_ok = all(p.lower_limit <= x <= p.upper_limit for p, x in zip(priors, phys))
        want = ignore or ((lim_ok or not checks_limits) and all(v for v, _ in vs))
        if impl.get("err", "").startswith("other"):
            return
        if want and "err" in impl:
            ctx.fail("C03-ignore-raises" if ignore else "C03-rejected-valid",
                     f"{route}: an instance was refused although " + ("the caller ignores limits/assertions" if ignore else "every limit and assertion holds"),
                     case, {"impl": impl["err"], "limits_ok": lim_ok, "assertions": vs})
        if not want and "ok" in impl:
            only_root = lim_ok or not checks_limits
            only_root = only_root and all(v or at_root for v, at_root in vs)
            if route == "pathArguments" and only_root:
                ctx.fail("C03-path-route-root-assertions",
                         "instance_from_path_arguments / instance_from_prior_name_arguments yield an instance although an "
                         "assertion attached to the root model is violated (they call _instance_for_arguments directly)",
                         case, {"assertions": vs})
            else:
                ctx.fail("C03-accepted-invalid", f"{route}: an instance was produced although a limit or an assertion is violated",
                         case, {"limits_ok": lim_ok, "assertions": vs})

    def one(route, real_call, phys, ignore, checks_limits, extra):
        case = {"program": prog, "route": route, "ignore": ignore, **extra}
        ans = _ask_route(ctx, route, comp, lims, phys, ignore)
        if "driver_error" in ans:
            ctx.disagree("C03.route.driver", case, None, ans)
            return
        impl = outcome_of(real_call)
        ctx.hit(f"route:{route}:{'ignore' if ignore else 'check'}:{impl.get('err', 'instance').split(':')[0]}")
        compare_outcome(ctx, "C03.route." + route, case, impl, model_outcome(ans), loose)
        judge(route, impl, phys, ignore, checks_limits, case)

    def phys_of(units, ignore):
        # the physical values are the ones `Prior.value_for` maps the unit values to *with the same flag* (C02's
        # subject: a uniform prior clamps a rounded edge value to its limit unless limits are ignored)
        out = []
        for p, u in zip(priors, units):
            try:
                out.append(float(p.value_for(u, ignore_prior_limits=ignore)))
            except exc.PriorLimitException:
                out.append(float(p.value_for(u, ignore_prior_limits=True)))
        return out

    for ignore in (False, True):
        # unit vector / medians
        try:
            units = [rng.choice([0.0, 1.0, rng.uniform(0.0, 1.0)]) if rng.random() < 0.15 else rng.uniform(0.02, 0.98) for _ in priors]
            phys = phys_of(units, ignore)
            one("unitVector", lambda: model.instance_from_unit_vector(units, ignore_prior_limits=ignore), phys, ignore, True, {"units": units})
            one("medians", lambda: model.instance_from_prior_medians(ignore_prior_limits=ignore), phys_of([0.5] * len(priors), ignore), ignore, True, {})
        except Exception as e:
            ctx.hit("route-unit-skipped:" + type(e).__name__)
        # random_instance with the library's generator seeded; the draws are replayed to learn the values
        seed = rng.randrange(1 << 30)
        try:
            pyrandom.seed(seed)
            if ignore:
                phys = phys_of([pyrandom.random() for _ in range(model.prior_count)], True)
            else:
                drawn = {p: p.random() for p in model.priors}
                phys = [float(drawn[p]) for p in priors]
            pyrandom.seed(seed)
            one("random", lambda: model.random_instance(ignore_prior_limits=ignore), phys, ignore, True, {"random_seed": seed})
        except exc.PriorLimitException:
            ctx.hit("route-random-draw-outside-limits")
        except Exception as e:
            ctx.hit("route-random-skipped:" + type(e).__name__)
        # argument routes: no limits; values inside and outside the limits, satisfying and violating assertions
        for kind, v in base_vectors[:3]:
            if any(isinstance(x, float) and math.isnan(x) for x in v):
                continue
            one("arguments", lambda: model.instance_for_arguments({p: x for p, x in zip(priors, v)}, ignore_assertions=ignore),
                v, ignore, False, {"vector": v, "kind": kind})
            try:
                paths = {}
                for path, p in model.path_priors_tuples:
                    paths.setdefault(p, path)
                pa = {paths[p]: x for p, x in zip(priors, v)}
            except Exception:
                ctx.hit("route-path-skipped")
                continue
            one("pathArguments", lambda: model.instance_from_path_arguments(pa, ignore_assertions=ignore),
                v, ignore, False, {"vector": v, "kind": kind, "paths": [list(k) for k in pa]})


# ---------------------------------------------------------------------------------------------
# what the comparison operators build


def _fp_operand(o):
    if isinstance(o, Prior):
        return {"p": int(o.id)}
    if isinstance(o, bool):
        return {"o": 1}
    if isinstance(o, (int, float)):
        return {"c": f2h(float(o))}
    if isinstance(o, CompoundPrior) and type(o).__name__ in X.BIN:
        return {"op": X.BIN[type(o).__name__], "l": _fp_operand(o._left), "r": _fp_operand(o._right)}
    if isinstance(o, ModifiedPrior) and type(o).__name__ in X.UN:
        return {"op": X.UN[type(o).__name__], "x": _fp_operand(o.prior)}
    return {"o": 1}


def fp_assertion(a):
    from autofit.mapper.prior.arithmetic import assertion as A

    if isinstance(a, bool):
        return {"a": "lit", "v": bool(a)}
    if isinstance(a, A.CompoundAssertion):
        return {"a": "and", "x": fp_assertion(a.assertion_1), "y": fp_assertion(a.assertion_2)}
    if isinstance(a, A.GreaterThanLessThanEqualAssertion):
        return {"a": "le", "l": _fp_operand(a._left), "g": _fp_operand(a._right)}
    if isinstance(a, A.GreaterThanLessThanAssertion):
        return {"a": "lt", "l": _fp_operand(a._left), "g": _fp_operand(a._right)}
    return {"a": "unknown:" + type(a).__name__}


def build_clause(ctx, model, comp, priors, prog, H, v, CMP):
    """`x op y`, `(x op y) op z`, `k op (x op y)` built by the real operators (numbers on either side, reflected
    methods) against the Lean builders: the same objects in the same lower/greater slots, the same verdict for the
    vector, and the verdict is the plain inequalities on the numbers"""
    rng = ctx.rng
    if not priors or any(isinstance(x, float) and math.isnan(x) for x in v):
        return
    in_model = {p.id for p in priors}
    hp = [s["h"] for s in prog if s["op"] == "prior" and H[s["h"]].id in in_model]
    he = [s["h"] for s in prog if s["op"] in ("arith", "modif") and all(p.id in in_model for p in H[s["h"]].priors)]
    if not hp:
        return
    args = {p: x for p, x in zip(priors, v)}

    def obj():
        h = rng.choice(he) if he and rng.random() < 0.25 else rng.choice(hp)
        return H[h], {"obj": X.operand(H[h], False)}

    def num():
        x = rng.choice([float(rng.choice(v)), rng.uniform(-40, 40)])
        return x, {"num": f2h(x)}

    for _ in range(2):
        form = rng.choice(["cmp", "cmp", "chain", "chain", "refl"])
        asc = rng.random() < 0.5
        pick = lambda: rng.choice(["<", "<="] if asc else [">", ">="])
        if form == "cmp":
            ops = [rng.choice(["<", "<=", ">", ">="])]
            x, y = (obj(), num()) if rng.random() < 0.3 else (num(), obj()) if rng.random() < 0.45 else (obj(), obj())
            xs = [x, y]
            real = CMP[ops[0]](x[0], y[0])
        elif form == "chain":
            ops = [pick(), pick()]
            x, y = (num(), obj()) if rng.random() < 0.3 else (obj(), num()) if rng.random() < 0.3 else (obj(), obj())
            # the operand the second link continues from: `greater` for ascending, `lower` for descending chains, i.e. y
            z = obj() if isinstance(y[0], float) or rng.random() < 0.6 else num()
            xs = [x, y, z]
            real = CMP[ops[1]](CMP[ops[0]](x[0], y[0]), z[0])
        else:
            ops = [pick(), pick()]
            k, x, y = num(), obj(), (obj() if rng.random() < 0.7 else num())
            xs = [k, x, y]
            real = CMP[ops[0]](k[0], CMP[ops[1]](x[0], y[0]))
        case = {"program": prog, "vector": v, "form": form, "ops": ops, "operands": [w for _, w in xs]}
        ans = ctx.lean.ask({"p": "C03", "kind": "build", "comp": comp, "v": [f2h(x_) for x_ in v], "form": form,
                            "ops": ops, "operands": [w for _, w in xs]})
        if "driver_error" in ans:
            ctx.disagree("C03.build.driver", case, None, ans)
            continue
        ctx.hit("build:" + form)
        shape = fp_assertion(real)
        if shape != ans.get("shape"):
            ctx.disagree("C03.build.shape", case, shape, ans.get("shape"))
            continue
        try:
            vals = [c01.eval_expr(o, args) for o, _ in xs]
            got = real if isinstance(real, bool) else bool(real.instance_for_arguments(args))
        except Exception:
            ctx.hit("build-eval-undefined")
            continue
        if any(isinstance(x_, complex) or (isinstance(x_, float) and math.isnan(x_)) for x_ in vals):
            continue
        if got != ans.get("verdict"):
            ctx.disagree("C03.build.verdict", case, got, ans.get("verdict"))
        want = all(CMP[o](vals[j], vals[j + 1]) for j, o in enumerate(ops))
        if got != want:
            ctx.fail("C03-chain-meaning", "an assertion built by the comparison operators does not denote the inequalities written",
                     case, {"verdict": got, "inequalities": want, "values": vals})
