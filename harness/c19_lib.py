"""C19 helpers shared by tables_c19.py (table extraction) and c19.py (harness).

* parser of the four statement shapes migration steps may use (anything else -> ValueError: the model
  does not cover it and the tie is reported broken)
* the mapped schema read from `Base.metadata`
* historic databases: the schema a database created at historic revision k had, derived from the mapped
  schema by *undoing* the pinned history (harness/c19_history.json), and CREATE TABLE text for it
"""
import json
import re
import sqlite3
from pathlib import Path

HERE = Path(__file__).resolve().parent
HISTORY = HERE / "c19_history.json"

_ID = r'"?([A-Za-z_][A-Za-z_0-9]*)"?'


def norm_sql(s: str) -> str:
    return re.sub(r"\s+", " ", s.strip().rstrip(";")).strip()


def split_top(s: str):
    out, depth, cur = [], 0, []
    for ch in s:
        if ch == "(":
            depth += 1
        elif ch == ")":
            depth -= 1
        if ch == "," and depth == 0:
            out.append("".join(cur))
            cur = []
        else:
            cur.append(ch)
    if "".join(cur).strip():
        out.append("".join(cur))
    return [x.strip() for x in out]


def parse_stmt(sql: str) -> dict:
    s = norm_sql(sql)
    m = re.fullmatch(rf"ALTER TABLE {_ID} ADD (?:COLUMN )?{_ID} \w+", s, re.I)
    if m:
        return {"k": "add", "t": m.group(1), "c": m.group(2)}
    m = re.fullmatch(rf"ALTER TABLE {_ID} RENAME COLUMN {_ID} TO {_ID}", s, re.I)
    if m:
        return {"k": "rename", "t": m.group(1), "a": m.group(2), "b": m.group(3)}
    m = re.fullmatch(rf"ALTER TABLE {_ID} DROP COLUMN {_ID}", s, re.I)
    if m:
        return {"k": "drop", "t": m.group(1), "c": m.group(2)}
    m = re.fullmatch(rf"CREATE TABLE {_ID} ?\((.*)\)", s, re.I | re.S)
    if m:
        cols = []
        for part in split_top(m.group(2)):
            if re.match(r"(PRIMARY KEY|FOREIGN KEY|CHECK|UNIQUE|CONSTRAINT)\b", part, re.I):
                continue
            cm = re.match(_ID, part)
            if not cm:
                raise ValueError(f"unparsed column definition: {part!r}")
            cols.append(cm.group(1))
        return {"k": "create", "t": m.group(1), "cols": cols}
    raise ValueError(f"statement shape not covered by the model: {sql!r}")


def stmt_key(st: dict) -> str:
    return json.dumps(st, sort_keys=True)


def load_history() -> dict:
    return json.loads(HISTORY.read_text())


# ---------------------------------------------------------------------------------------------
# mapped schema


def orm_rich(Base):
    """[(table, [col dict])] in dependency order; col = name/type/pk/fks"""
    out = []
    for t in Base.metadata.sorted_tables:
        cols = []
        for c in t.columns:
            cols.append(
                {
                    "name": c.name,
                    "type": str(c.type),
                    "pk": bool(c.primary_key),
                    "fks": [[f.column.table.name, f.column.name] for f in c.foreign_keys],
                }
            )
        out.append([t.name, cols])
    return out


def names_of(rich):
    return [[t, [c["name"] for c in cols]] for t, cols in rich]


def undo(rich, stmts):
    """the schema before `stmts` (parsed, in application order) were applied to `rich`"""
    rich = [[t, [dict(c) for c in cols]] for t, cols in rich]
    for st in reversed(stmts):
        if st["k"] == "add":
            for t, cols in rich:
                if t == st["t"]:
                    cols[:] = [c for c in cols if c["name"] != st["c"]]
        elif st["k"] == "create":
            rich = [[t, cols] for t, cols in rich if t != st["t"]]
            for t, cols in rich:
                for c in cols:
                    c["fks"] = [fk for fk in c["fks"] if fk[0] != st["t"]]
        elif st["k"] == "rename":
            for t, cols in rich:
                if t == st["t"]:
                    for c in cols:
                        if c["name"] == st["b"]:
                            c["name"] = st["a"]
        elif st["k"] == "drop":
            pass  # nothing to restore: a dropped column is not part of any mapped schema
    return rich


def create_sql(rich):
    out = []
    for t, cols in rich:
        defs, pks, fks = [], [], []
        for c in cols:
            defs.append(f'"{c["name"]}" {c["type"]}' + (" NOT NULL" if c["pk"] else ""))
            if c["pk"]:
                pks.append(f'"{c["name"]}"')
            for ft, fc in c["fks"]:
                fks.append(f'FOREIGN KEY("{c["name"]}") REFERENCES "{ft}" ("{fc}")')
        parts = defs + ([f'PRIMARY KEY ({", ".join(pks)})'] if pks else []) + fks
        out.append(f'CREATE TABLE "{t}" (' + ", ".join(parts) + ")")
    return out


def history_stmts(history, lo, hi, skip=()):
    """parsed statements of historic steps lo+1..hi (1-based step numbers), skipping step numbers in `skip`"""
    out = []
    for i in range(lo, hi):
        if (i + 1) in skip:
            continue
        out += [parse_stmt(s) for s in history["steps"][i]["strings"]]
    return out


def historic_rich(Base, history, k, keep=()):
    """mapped schema of a database *created* at historic revision k: today's mapping minus what the steps
    k+1.. added. `keep`: step numbers whose additions the mapping of that time already contained."""
    n = len(history["steps"])
    return undo(orm_rich(Base), history_stmts(history, k, n, skip=keep))


# ---------------------------------------------------------------------------------------------
# reading a file


def read_schema(path):
    """({table: [columns in order]}, revision rows or None when there is no revision table)"""
    c = sqlite3.connect(path)
    try:
        out = {}
        for (name,) in c.execute("select name from sqlite_master where type='table' order by name"):
            out[name] = [r[1] for r in c.execute(f'pragma table_info("{name}")')]
        rev = None
        if "revision" in out:
            rev = [r[0] for r in c.execute("select revision_id from revision")]
            del out["revision"]
        return out, rev
    finally:
        c.close()


def read_data(path, raw=False):
    """{table: {column: [values ordered by rowid]}} (blobs as hex text unless raw)"""
    c = sqlite3.connect(path)
    try:
        out = {}
        for (name,) in c.execute("select name from sqlite_master where type='table' order by name"):
            if name == "revision":
                continue
            cols = [r[1] for r in c.execute(f'pragma table_info("{name}")')]
            rows = list(c.execute(f'select {", ".join(chr(34) + x + chr(34) for x in cols)} from "{name}" order by rowid'))
            out[name] = {col: [r[i] if raw or not isinstance(r[i], bytes) else r[i].hex() for r in rows] for i, col in enumerate(cols)}
        return out
    finally:
        c.close()


def rev_wire(rev):
    """revision rows -> wire form of the model's `Rev`"""
    if rev is None:
        return "noTable"
    if len(rev) == 0:
        return "empty"
    if len(rev) == 1:
        return {"row": rev[0]}
    return {"rows": rev}
