"""C18, array-valued messages / plates / batches / log_norm (growth of the C18 check).

generate a factor graph over plate variables (1-2 plates of size 2-4, 2-4 variables with 1-2 plates,
2-4 factors + optional one-variable 'prior' factors, every variable held by >= 2 factors), array-valued
Normal messages -> real `EPMeanField.from_approx_dists`, then a sequence of

* whole-array updates: `factor_approximation` / `project_mean_field` (delta 1, (0,1), > 1; elements of
  the new distribution proper or improper one by one; `log_norm` on the new distribution), and
* batches: `EPMeanField.subset(plates_index)` -> `EPMeanFieldSubset.factor_approximation` /
  `project_mean_field` (1-3 factor updates) -> `EPMeanField.merge` (and the in-place route
  `approx[index] = subset` on a deep copy);

every message / cavity / model / global array, the rescale factors, statuses, `log_norm`s and
`log_evidence` are compared with the Lean model `AF.EP` (EPPlate.lean, exact rationals); the property
sentence is re-evaluated element by element with numpy on the real outputs (oracle)."""
import numpy as np

from common import f2h, h2f, LeanError

from autofit import graphical as g
from autofit.graphical.expectation_propagation.ep_mean_field import EPMeanField
from autofit.graphical.mean_field import MeanField
from autofit.graphical.utils import Status, StatusFlag
from autofit.mapper.variable import Plate, Variable
from autofit.messages.normal import NormalMessage

REL = 1e-9
BAD = StatusFlag.BAD_PROJECTION

RULE_PLATE = (
    "; plate graphs: 1-2 plates of size 2-4, 2-4 variables over 1-2 plates, 2-4 factors (+ one-variable factors), "
    "array-valued Normal messages, 1-5 operations: whole-array projections (delta 1 / (0,1) / >1, improper elements) and "
    "batches (subset of 1..n positions of 1-2 plates, 1-3 factor updates, merge); non-trivial = a batch with >= 1 update "
    "on a graph where some variable lacks the batch plate (rescale < 1)"
)


# ---------------------------------------------------------------------------------------------
# generation


def gen_case(rng):
    n_p = 2 if rng.random() < 0.8 else 1
    plates = [rng.randint(2, 4) for _ in range(n_p)]
    shapes = [[0]] if n_p == 1 else [[0], [1], [0, 1], [1, 0]]
    n_v = rng.randint(2, 4)
    dims = [list(rng.choice(shapes)) for _ in range(n_v)]
    if all(0 not in d for d in dims):
        dims[0] = [0]
    n_f = rng.randint(2, 4)
    scopes = []
    for _ in range(n_f):
        k = rng.randint(1, n_v)
        scopes.append(sorted(rng.sample(range(n_v), k)))
    if rng.random() < 0.6:
        for v in range(n_v):
            scopes.append([v])
    for v in range(n_v):  # every variable is held by at least two factors
        while sum(1 for sc in scopes if v in sc) < 2:
            cand = [i for i, sc in enumerate(scopes) if v not in sc]
            if not cand:
                scopes.append([v])
            else:
                i = rng.choice(cand)
                scopes[i] = sorted(scopes[i] + [v])
    init = []
    for v in range(n_v):
        n = int(np.prod([plates[p] for p in dims[v]]))
        init.append([[round(rng.uniform(-5, 5), 3), round(rng.uniform(0.3, 4.0), 3)] for _ in range(n)])
    return {"plates": plates, "dims": dims, "scopes": scopes, "init": init}


def gen_index(rng, prog):
    ix = []
    for p, n in enumerate(prog["plates"]):
        if p == 0 or rng.random() < 0.25:
            k = rng.randint(1, n)
            ix.append([p, rng.sample(range(n), k)])
    return ix


# ---------------------------------------------------------------------------------------------
# the real objects


class PB:
    pass


def build(prog):
    B = PB()
    B.prog = prog
    B.plates = [Plate(f"pl{i}") for i in range(len(prog["plates"]))]
    B.vars = [Variable(f"v{i}", *[B.plates[p] for p in d]) for i, d in enumerate(prog["dims"])]
    B.vid = {v: i for i, v in enumerate(B.vars)}
    B.shape = [tuple(prog["plates"][p] for p in d) for d in prog["dims"]]
    B.factors = []
    for i, sc in enumerate(prog["scopes"]):
        def fn(*args):
            return 0.0
        B.factors.append(g.Factor(fn, *[B.vars[v] for v in sc], name=f"f{i}"))
    B.fidx = {f: i for i, f in enumerate(B.factors)}
    B.graph = g.FactorGraph(B.factors)
    md = {}
    for v, ms in enumerate(prog["init"]):
        a = np.array(ms, dtype=float)
        md[B.vars[v]] = NormalMessage(a[:, 0].reshape(B.shape[v]), a[:, 1].reshape(B.shape[v]))
    B.mf0 = EPMeanField.from_approx_dists(B.graph, md)
    B.md = md
    B.scale = {}
    return B


def arr_of(B, v, m):
    """[(e1, e2) per element], row-major"""
    e = np.asarray(m.natural_parameters, dtype=float)
    a, b = np.ravel(e[0]), np.ravel(e[1])
    for k, x in ((0, a), (1, b)):
        fin = np.abs(x[np.isfinite(x)])
        if fin.size:
            B.scale[(v, k)] = max(B.scale.get((v, k), 0.0), float(fin.max()))
    return [(float(x), float(y)) for x, y in zip(a, b)]


def field_of(B, mean_field):
    return {B.vid[v]: arr_of(B, B.vid[v], m) for v, m in dict.items(mean_field)}


def state_of(B, ep, fmap=None):
    out = {}
    for f, field in ep.factor_mean_field.items():
        out[B.fidx[fmap[f] if fmap else f]] = field_of(B, field)
    return out


def wire_arr(a):
    return [[f2h(x), f2h(y)] for x, y in a]


def wire_field(field):
    return [[v, wire_arr(a)] for v, a in sorted(field.items())]


def wire_state(state):
    return [[f, wire_field(fl)] for f, fl in sorted(state.items())]


def bits(field):
    return {v: wire_arr(a) for v, a in field.items()}


def parse_arr(j):
    from fractions import Fraction
    return [(Fraction(e[0]), Fraction(e[1])) for e in j]


def parse_field(j):
    return {int(v): parse_arr(a) for v, a in j}


def parse_state(j):
    return {int(f): parse_field(fl) for f, fl in j}


def near(B, v, k, a, b, rel=REL):
    a, b = float(a), float(b)
    if a != a or b != b:
        return a != a and b != b
    return abs(a - b) <= rel * max(abs(a), abs(b)) + rel * B.scale.get((v, k), 0.0)


def same_arr(B, v, x, y, rel=REL):
    return len(x) == len(y) and all(near(B, v, k, p[k], q[k], rel) for p, q in zip(x, y) for k in (0, 1))


def same_field(B, real, model, rel=REL):
    return sorted(real) == sorted(model) and all(same_arr(B, v, real[v], model[v], rel) for v in real)


def same_state(B, real, model):
    return sorted(real) == sorted(model) and all(same_field(B, real[f], model[f]) for f in real)


def show(field):
    return {str(v): [[float(x), float(y)] for x, y in a] for v, a in sorted(field.items())}


def make_q(B, fa, qf):
    """MeanField over the variables of the approximation from {v: [(e1, e2)…]} with the shapes of `fa`"""
    out = {}
    for var, m in dict.items(fa.model_dist):
        a = np.array(qf[B.vid[var]], dtype=float)
        shp = np.shape(m.mean)
        out[var] = m.from_natural_parameters(np.array([a[:, 0].reshape(shp), a[:, 1].reshape(shp)]))
    return out


def choose_q(rng, old, cav, d, want_valid):
    """per element natural parameters of the new model distribution"""
    q = {}
    for v in old:
        els = []
        for i, o in enumerate(old[v]):
            c2 = cav[v][i][1] if v in cav else -rng.uniform(0.05, 3.0)
            valid = want_valid or rng.random() < 0.5
            for _ in range(50):
                if valid or (d < 1 and d <= 0.0):
                    q2 = c2 * rng.uniform(1.3, 4.0)
                elif d >= 1:
                    q2 = c2 * rng.uniform(0.2, 0.9)
                else:
                    q2 = c2 + (1 - d) / d * abs(o[1]) * rng.uniform(1.5, 3.0)
                    if q2 >= -1e-6 * abs(c2):
                        q2 = c2 * rng.uniform(1.3, 4.0)
                cc = c2 if v in cav else 0.0
                cand2 = (q2 - cc) if d >= 1 else (d * q2 + (1 - d) * o[1] - d * cc)
                if abs(cand2) > 1e-4 * max(abs(q2), abs(cc), abs(o[1])) and q2 < 0:
                    break
            mean = rng.uniform(-5, 5)
            els.append((mean * (-2.0 * q2), q2))
        q[v] = els
    return q


def gen_d(rng):
    r = rng.random()
    if r < 0.5:
        return 1.0
    if r < 0.85:
        return round(rng.uniform(0.1, 0.9), 2)
    return rng.choice([1.5, 2.0])


# ---------------------------------------------------------------------------------------------
# oracle pieces (numpy on the real outputs)


def sum_msgs(state, v, skip=None):
    rows = [fl[v] for f, fl in state.items() if f != skip and v in fl]
    if not rows:
        return None
    n = len(rows[0])
    return [(sum(r[i][0] for r in rows), sum(r[i][1] for r in rows)) for i in range(n)]


def oracle_approx(ctx, B, case, state, f, cav, old, model, where):
    for v in old:
        others = sum_msgs(state, v, skip=f)
        glob = sum_msgs(state, v)
        if v not in model or not same_arr(B, v, model[v], glob):
            ctx.fail("C18-plate-model-dist", "the model distribution of a factor over array-valued messages is not the product of all "
                     "factors' messages element by element", case, {"where": where, "factor": f, "var": v})
            return False
        if others is None:
            continue
        if v not in cav:
            ctx.fail("C18-plate-cavity-keys", "the cavity lacks a variable another factor holds", case, {"where": where, "factor": f, "var": v})
            return False
        mc = [(o[0] + c[0], o[1] + c[1]) for o, c in zip(old[v], cav[v])]
        if not same_arr(B, v, model[v], mc):
            ctx.fail("C18-plate-message-times-cavity", "a factor's model distribution is not its own message times its cavity (array-valued "
                     "messages / batch approximation)", case, {"where": where, "factor": f, "var": v})
            return False
    return True


def oracle_step(ctx, B, case, where, f, prev, new, q, d, st, success_in):
    """only f's message changes; per element: proper -> global' = q (full) or q^d global^(1-d); improper -> previous
    message kept and the status says so"""
    for g_ in prev:
        if g_ != f and (g_ not in new or bits(new[g_]) != bits(prev[g_])):
            ctx.fail("C18-plate-update-touches-other-factor", "updating one factor changed another factor's array-valued message", case,
                     {"where": where, "updated": f, "changed": g_})
            return
    if sorted(new) != sorted(prev) or sorted(new[f]) != sorted(q):
        ctx.fail("C18-plate-update-keys", "after an update the factor does not hold one message per fitted variable", case, {"where": where})
        return
    kept_any = False
    for v in q:
        gnew, gold = sum_msgs(new, v), sum_msgs(prev, v)
        for i in range(len(q[v])):
            want = q[v][i] if d >= 1 else tuple(d * q[v][i][k] + (1 - d) * gold[i][k] for k in (0, 1))
            moved = all(near(B, v, k, gnew[i][k], want[k]) for k in (0, 1))
            kept = all(near(B, v, k, new[f][v][i][k], prev[f][v][i][k]) for k in (0, 1))
            if not moved and not kept:
                ctx.fail("C18-plate-full-update" if d >= 1 else "C18-plate-damped-update",
                         "after an update of array-valued messages an element of the global approximation is neither the newly fitted "
                         "distribution (damped: q^d * previous^(1-d)) nor was the previous message kept", case,
                         {"where": where, "var": v, "element": i, "global": gnew[i], "want": want})
                return
            if not moved:
                kept_any = True
                ctx.hit("plate:element-kept-improper")
    if kept_any and (st.success or st.flag != BAD):
        ctx.fail("C18-plate-status", "elements of a projection were dropped but the status does not say so", case,
                 {"where": where, "success": bool(st.success), "flag": str(st.flag)})
    if not kept_any and bool(st.success) != bool(success_in):
        ctx.fail("C18-plate-status", "the status of a proper projection does not carry the factor optimiser's success", case,
                 {"where": where, "success": bool(st.success), "want": bool(success_in)})


def flat_positions(B, v, ix):
    """flat positions of the batch inside variable v (None: the whole message is exchanged)"""
    prog = B.prog
    d = prog["dims"][v]
    sel = dict((p, s) for p, s in ix)
    if not any(p in sel for p in d):
        return None
    seqs = [sel.get(p, list(range(prog["plates"][p]))) for p in d]
    full = np.arange(int(np.prod([prog["plates"][p] for p in d]))).reshape([prog["plates"][p] for p in d])
    return [int(x) for x in np.ravel(full[np.ix_(*seqs)])]


# ---------------------------------------------------------------------------------------------
# one case


def plate_case(ctx, prog, ops=None, n_ops=None, label="gen"):
    case = {"kind": "plate", "program": prog, "ops": ops if ops is not None else []}
    try:
        _plate_case(ctx, prog, case, ops, n_ops, label)
    except LeanError:
        raise
    except Exception as e:
        import traceback

        tb = traceback.extract_tb(e.__traceback__)
        where = next((f"{fr.filename.split('/')[-1]}:{fr.lineno}" for fr in reversed(tb) if "/autofit/" in fr.filename), "harness")
        ctx.fail("C18-plate-exception-" + type(e).__name__, f"{type(e).__name__} raised while building / subsetting / updating / merging an "
                 "EP approximation over plates", case, {"error": repr(e)[:300], "where": where})


def real_step(B, ep, fmap_inv, st_in, rng, fi, d, success, q_wire, want_valid, ln=None):
    F = B.factors[fi]
    fa = ep.factor_approximation(F)
    cav, old, model = field_of(B, fa.cavity_dist), field_of(B, fa.factor_dist), field_of(B, fa.model_dist)
    if q_wire is None:
        qf = choose_q(rng, old, cav, d, want_valid)
    else:
        qf = {int(v): [(h2f(a), h2f(b)) for a, b in arr] for v, arr in q_wire}
    lognorm = round(rng.uniform(-5, 5), 3) if ln is None else h2f(ln)
    qmf = MeanField(make_q(B, fa, qf), log_norm=lognorm)
    new_ep, st = ep.project_mean_field(qmf, fa, delta=d, status=Status(success=success, result=("r", 1)))
    return fa, (cav, old, model), field_of(B, qmf), new_ep, st, lognorm


def _plate_case(ctx, prog, case, ops, n_ops, label):
    rng = ctx.rng
    B = build(prog)
    ep = B.mf0
    done = []  # wire ops with the real q filled in
    rec = []  # per op: what the real code produced
    init_state = state_of(B, ep)
    lognorm_updates = []
    k = 0
    any_rescaled = False
    while True:
        if ops is not None:
            if k >= len(ops):
                break
            op = dict(ops[k])
        else:
            if k >= n_ops:
                break
            op = {"k": "batch", "index": gen_index(rng, prog), "steps": [None] * rng.randint(1, 3)} if rng.random() < 0.6 else {"k": "proj"}
        case["ops"] = done + [op]
        if op["k"] == "proj":
            fi = op["f"] if "f" in op else rng.randrange(len(B.factors))
            d = h2f(op["d"]) if "d" in op else gen_d(rng)
            success = op.get("success", rng.random() < 0.75)
            prev = state_of(B, ep)
            fa, fields, q_real, new_ep, st, ln = real_step(B, ep, None, None, rng, fi, d, success, op.get("q"), rng.random() < 0.7, op.get("ln"))
            w = {"k": "proj", "f": fi, "d": f2h(d), "success": success, "q": wire_field(q_real), "ln": f2h(ln)}
            done.append(w)
            rec.append({"k": "proj", "f": fi, "d": d, "success": success, "prev": prev, "fa": fields, "q": q_real,
                        "new": state_of(B, new_ep), "glob": field_of(B, new_ep.mean_field), "st": st,
                        "lognorm_q": ln, "lognorm_new": float(np.sum(new_ep.factor_mean_field[B.factors[fi]].log_norm))})
            lognorm_updates.append([fi, f2h(ln)])
            ctx.hit("plate:projection")
            ep = new_ep
        else:
            ix = [[int(p), [int(i) for i in s]] for p, s in op["index"]]
            index = {B.plates[p]: list(s) for p, s in ix}
            before = state_of(B, ep)
            sub = ep.subset(index)
            fmap = {sf: f for f, sf in sub._factor_subset_factor.items()}
            sub0 = state_of(B, sub, fmap)
            rescale = {B.fidx[fmap[sf]]: {B.vid[v]: float(x) for v, x in sc.items()} for sf, sc in sub.factor_rescale.items()}
            if any(x < 1 for sc in rescale.values() for x in sc.values()):
                any_rescaled = True
            steps_w, steps_r = [], []
            for sj in op["steps"]:
                sj = sj or {}
                fi = sj["f"] if "f" in sj else rng.randrange(len(B.factors))
                d = h2f(sj["d"]) if "d" in sj else gen_d(rng)
                success = sj.get("success", rng.random() < 0.75)
                prev = state_of(B, sub, fmap)
                fa, fields, q_real, new_sub, st, ln = real_step(B, sub, fmap, None, rng, fi, d, success, sj.get("q"), rng.random() < 0.7, sj.get("ln"))
                fmap = {sf: f for f, sf in new_sub._factor_subset_factor.items()}
                steps_w.append({"f": fi, "d": f2h(d), "success": success, "q": wire_field(q_real), "ln": f2h(ln)})
                steps_r.append({"f": fi, "d": d, "success": success, "prev": prev, "fa": fields, "q": q_real,
                                "new": state_of(B, new_sub, fmap), "glob": field_of(B, new_sub.mean_field), "st": st})
                sub = new_sub
                ctx.hit("plate:batch-step:" + ("full" if d >= 1 else "damped"))
            merged = ep.merge(index, sub)
            after_src = state_of(B, ep)
            w = {"k": "batch", "index": ix, "steps": steps_w}
            done.append(w)
            r = {"k": "batch", "index": ix, "before": before, "sub0": sub0, "rescale": rescale, "steps": steps_r,
                 "sub_final": state_of(B, sub, fmap), "merged": state_of(B, merged), "merged_glob": field_of(B, merged.mean_field),
                 "src_after": after_src}
            # the in-place route on a deep copy: approx[index] = subset
            try:
                deep = EPMeanField(ep.factor_graph, {
                    f: MeanField({v: NormalMessage(np.array(m.mean, dtype=float), np.array(m.sigma, dtype=float)) for v, m in dict.items(fl)})
                    for f, fl in ep.factor_mean_field.items()})
                deep[index] = sub
                r["inplace"] = state_of(B, deep)
                if ep is B.mf0:
                    # the same on a mean field as the library itself builds it (from_approx_dists): every factor
                    # holds its own message, an in-place update of one factor is not seen by the others
                    lib = EPMeanField.from_approx_dists(B.graph, {v: NormalMessage(np.array(m.mean, dtype=float), np.array(m.sigma, dtype=float))
                                                                  for v, m in B.md.items()})
                    lib[index] = sub
                    r["inplace_lib"] = state_of(B, lib)
                    ctx.hit("plate:in-place-on-library-built-field")
            except Exception as e:  # noqa
                ctx.hit("plate:in-place-raised:" + type(e).__name__)
            rec.append(r)
            ctx.hit("plate:batch")
            ep = merged
        k += 1
    case["ops"] = done
    final_state = state_of(B, ep)

    # ---- the model
    req = {"p": "C18", "q": "plate",
           "plates": [[p, [n]] for p, n in enumerate(prog["plates"])],
           "vars": [[v, d] for v, d in enumerate(prog["dims"])],
           "factors": [[f, sc] for f, sc in enumerate(prog["scopes"])],
           "state": wire_state(init_state), "ops": done}
    ans = ctx.lean.ask(req)
    ctx.case({"program": prog, "ops": done}, nontrivial=any_rescaled and any(r["k"] == "batch" and r["steps"] for r in rec),
             sample={"program": prog, "n_ops": len(done), "label": label})
    if "driver_error" in ans:
        ctx.disagree("C18.plate-driver", case, None, ans["driver_error"])
        return
    if not same_field(B, field_of(B, B.mf0.mean_field), parse_field(ans["init_global"])):
        ctx.disagree("C18.plate-init-global", case, show(field_of(B, B.mf0.mean_field)), show(parse_field(ans["init_global"])))

    def cmp_step(tag, r, ms, kk):
        for name, real in zip(("cav", "old", "model"), r["fa"]):
            if not same_field(B, real, parse_field(ms[name])):
                ctx.disagree(f"C18.plate-{tag}-approx-{name}", case | {"step": kk}, show(real), show(parse_field(ms[name])))
        if not same_field(B, r["new"][r["f"]], parse_field(ms["new"])):
            ctx.disagree(f"C18.plate-{tag}-new-message", case | {"step": kk}, show(r["new"][r["f"]]), show(parse_field(ms["new"])))
        if not same_field(B, r["glob"], parse_field(ms["global"])):
            ctx.disagree(f"C18.plate-{tag}-global", case | {"step": kk}, show(r["glob"]), show(parse_field(ms["global"])))
        st = r["st"]
        if bool(st.success) != ms["success"] or (st.flag == BAD) != ms["bad"]:
            ctx.disagree(f"C18.plate-{tag}-status", case | {"step": kk}, [bool(st.success), str(st.flag)], [ms["success"], ms["bad"]])

    for kk, (r, mo) in enumerate(zip(rec, ans["ops"])):
        if r["k"] == "proj":
            cmp_step("proj", r, mo, kk)
            oracle_approx(ctx, B, case, r["prev"], r["f"], *r["fa"], where=f"op {kk}")
            oracle_step(ctx, B, case, f"op {kk}", r["f"], r["prev"], r["new"], r["q"], r["d"], r["st"], r["success"])
            continue
        if not same_state(B, r["sub0"], parse_state(mo["sub"])):
            ctx.disagree("C18.plate-subset-state", case | {"step": kk}, {f: show(x) for f, x in r["sub0"].items()},
                         {f: show(x) for f, x in parse_state(mo["sub"]).items()})
        m_res = {int(f): {int(v): float(_frac(x)) for v, x in sc} for f, sc in mo["rescale"]}
        if sorted(m_res) != sorted(r["rescale"]) or any(
                sorted(m_res[f]) != sorted(r["rescale"][f]) or any(abs(m_res[f][v] - r["rescale"][f][v]) > 1e-12 for v in m_res[f])
                for f in m_res):
            ctx.disagree("C18.plate-rescale", case | {"step": kk}, r["rescale"], m_res)
        for v in range(len(prog["dims"])):
            pos = flat_positions(B, v, r["index"])
            for f, fl in r["before"].items():
                if v not in fl:
                    continue
                want = fl[v] if pos is None else [fl[v][i] for i in pos]
                if wire_arr(r["sub0"][f][v]) != wire_arr(want):
                    ctx.fail("C18-plate-subset-elements", "the subset of an approximation does not hold exactly the selected elements of "
                             "every factor's message", case, {"op": kk, "factor": f, "var": v})
        for jj, (sr, ms) in enumerate(zip(r["steps"], mo["steps"])):
            cmp_step("batch", sr, ms, [kk, jj])
            oracle_approx(ctx, B, case, sr["prev"], sr["f"], *sr["fa"], where=f"op {kk} batch step {jj}")
            oracle_step(ctx, B, case, f"op {kk} batch step {jj}", sr["f"], sr["prev"], sr["new"], sr["q"], sr["d"], sr["st"], sr["success"])
        if not same_state(B, r["merged"], parse_state(mo["merged"])):
            ctx.disagree("C18.plate-merged-state", case | {"step": kk}, {f: show(x) for f, x in r["merged"].items()},
                         {f: show(x) for f, x in parse_state(mo["merged"]).items()})
        if not same_field(B, r["merged_glob"], parse_field(mo["merged_global"])):
            ctx.disagree("C18.plate-merged-global", case | {"step": kk}, show(r["merged_glob"]), show(parse_field(mo["merged_global"])))
        # oracle: merging writes exactly the batch's elements of every factor's message and nothing else; the source is a value
        if {f: bits(x) for f, x in r["src_after"].items()} != {f: bits(x) for f, x in r["before"].items()}:
            ctx.fail("C18-plate-merge-changed-source", "EPMeanField.merge changed the approximation it was called on", case, {"op": kk})
        bad_merge = None
        for f, fl in r["before"].items():
            for v, oldarr in fl.items():
                pos = flat_positions(B, v, r["index"])
                newarr = r["sub_final"][f][v]
                want = list(newarr) if pos is None else list(oldarr)
                if pos is not None:
                    for kpos, i in enumerate(pos):
                        want[i] = newarr[kpos]
                if wire_arr(r["merged"][f][v]) != wire_arr(want):
                    bad_merge = {"op": kk, "factor": f, "var": v}
        if bad_merge:
            ctx.fail("C18-plate-merge-elements", "after merging a batch a factor's message is not the previous message with exactly the "
                     "batch's elements replaced by the batch's final message", case, bad_merge)
        for v, garr in r["merged_glob"].items():
            want = sum_msgs(r["merged"], v)
            if not same_arr(B, v, garr, want):
                ctx.fail("C18-plate-merged-global", "after a merge the global approximation is not the product of all factor messages", case,
                         {"op": kk, "var": v})
        if "inplace_lib" in r and {f: bits(x) for f, x in r["inplace_lib"].items()} != {f: bits(x) for f, x in r["merged"].items()}:
            ctx.fail("C18-plate-in-place-differs", "approx[index] = subset in place on a mean field built by from_approx_dists and "
                     "approx.merge(index, subset) give different messages (a factor's update shows in another factor's message)", case, {"op": kk})
        if "inplace" in r and {f: bits(x) for f, x in r["inplace"].items()} != {f: bits(x) for f, x in r["merged"].items()}:
            ctx.fail("C18-plate-in-place-differs", "approx[index] = subset (in place) and approx.merge(index, subset) give different messages", case,
                     {"op": kk})
    if not same_state(B, final_state, parse_state(ans["final"])):
        ctx.disagree("C18.plate-final-state", case, {f: show(x) for f, x in final_state.items()},
                     {f: show(x) for f, x in parse_state(ans["final"]).items()})

    # ---- log_norm of the stored factor mean fields and log_evidence
    real_ln = {B.fidx[f]: float(np.sum(fl.log_norm)) for f, fl in ep.factor_mean_field.items()}
    zs = {B.vid[v]: float(np.sum(z)) for v, z in ep.variable_evidence.items()}
    a2 = ctx.lean.ask({"p": "C18", "q": "lognorm", "factors": [[f, sc] for f, sc in enumerate(prog["scopes"])],
                       "updates": lognorm_updates, "z": [[v, f2h(z)] for v, z in sorted(zs.items())]})
    if "driver_error" in a2:
        ctx.disagree("C18.lognorm-driver", case, None, a2["driver_error"])
        return
    m_ln = {int(f): float(_frac(x)) for f, x in a2["log_norms"]}
    if sorted(m_ln) != sorted(real_ln) or any(abs(m_ln[f] - real_ln[f]) > 1e-12 for f in m_ln):
        ctx.disagree("C18.lognorm-factor", case, real_ln, m_ln)
    for r in rec:
        if r["k"] == "proj" and abs(r["lognorm_new"] - 0.0) > 1e-12:
            ctx.disagree("C18.lognorm-after-projection", case, r["lognorm_new"], 0.0)
    le = float(ep.log_evidence)
    m_le = float(_frac(a2["log_evidence"]))
    if not (abs(le - m_le) <= 1e-9 * max(1.0, abs(le), sum(abs(z) for z in zs.values()))):
        ctx.disagree("C18.log-evidence", case, le, m_le)
    # oracle (identity): log_evidence = sum_f log_norm_f + sum_v (1 - holders(v)) * Z_v
    holders = {v: sum(1 for sc in prog["scopes"] if v in sc) for v in zs}
    want = sum(real_ln.values()) + sum((1 - holders[v]) * zs[v] for v in zs)
    if not (abs(le - want) <= 1e-9 * max(1.0, abs(le), sum(holders[v] * abs(z) for v, z in zs.items()))):
        ctx.fail("C18-log-evidence-sum", "log_evidence is not the sum of the factors' log_norm plus (1 - number of holders) times each "
                 "variable's evidence", case, {"log_evidence": le, "want": want})
    ctx.hit("plate:log-evidence")


def _frac(s):
    from fractions import Fraction
    return Fraction(s)


def run_plate(ctx):
    rng = ctx.rng
    for _ in range(ctx.n(25, 400)):
        plate_case(ctx, gen_case(rng), n_ops=rng.choice([1, 2, 3, 5]))
