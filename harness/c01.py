"""C01 — parameter vector <-> model instance correspondence.

generate program -> real model -> (paths, count, instances by 3 routes) vs Lean `Comp` model;
oracle = the property sentence evaluated on the real instance."""
import json
import math
import re

import numpy as np

from common import f2h, h2f, close
import gen_comp
import extract_comp as X

import autofit as af
from autofit.mapper.prior.abstract import Prior
from autofit.mapper.prior.tuple_prior import TuplePrior
from autofit.mapper.prior_model.array import Array
from autofit.mapper.prior_model.prior_model import Model
from autofit.mapper.prior_model.collection import Collection
from autofit.mapper.prior.arithmetic.compound import CompoundPrior, ModifiedPrior

LOOSE_OPS = ("pow", "floordiv", "mod", "log", "log10")

RULE = (
    "random API programs (nested Model/Collection from list/dict/kwargs/append, shared priors, constants, "
    "tuple members incl. 12-tuples, arithmetic priors, Array models, non-constructor attributes); "
    "non-trivial = at least 2 free parameters and (a shared prior, a tuple, an arithmetic node, an array "
    "or nesting depth >= 2); distinct = hash of the extracted composition + vector"
)


def has_loose(node):
    if isinstance(node, dict):
        if node.get("k") in ("arith", "modif") and node.get("op") in LOOSE_OPS:
            return True
        return any(has_loose(v) for v in node.values())
    if isinstance(node, list):
        return any(has_loose(v) for v in node)
    return False


def features(node, depth=0, acc=None):
    acc = acc if acc is not None else {"depth": 0, "kinds": set(), "places": 0, "ids": set()}
    if isinstance(node, dict) and "k" in node:
        acc["kinds"].add(node["k"])
        acc["depth"] = max(acc["depth"], depth)
        if node["k"] == "prior":
            acc["places"] += 1
            acc["ids"].add(node["id"])
        for k, v in node.get("attrs", []):
            features(v, depth + 1, acc)
    return acc


def test_vector(rng, model):
    """pairwise distinct tag values, inside limits where the limits are finite"""
    out = []
    for p in model.priors_ordered_by_id:
        lo, hi = p.lower_limit, p.upper_limit
        if math.isinf(lo) or math.isinf(hi):
            lo, hi = -30.0, 30.0
            if type(p).__name__ == "LogGaussianPrior":
                lo, hi = 0.1, 30.0
        v = rng.uniform(lo, hi)
        out.append(float(v))
    return out


# --- oracle helpers -------------------------------------------------------------------------


def member_index(name):
    return int(name.rsplit("_", 1)[1])


def navigate(model, instance, path):
    """follow an advertised path in the real model and the real instance simultaneously.
    returns ("value", x) | ("derived", None) | ("absent", why)"""
    m, i = model, instance
    for depth, name in enumerate(path):
        if isinstance(m, (CompoundPrior, ModifiedPrior)):
            return ("derived", None)
        if isinstance(m, TuplePrior):
            names = sorted(
                (k for k, v in m.__dict__.items() if isinstance(v, (Prior, float)) and k != "id"),
                key=member_index,
            )
            try:
                i = i[names.index(name)]
            except Exception as e:
                return ("absent", f"tuple member {name}: {e!r}")
            m = getattr(m, name)
            continue
        if isinstance(m, Array):
            idx = tuple(int(s) for s in name.split("_")[1:])
            try:
                i = i[idx]
            except Exception as e:
                return ("absent", f"array entry {name}: {e!r}")
            m = getattr(m, name)
            continue
        try:
            m2 = getattr(m, name)
        except AttributeError as e:
            return ("absent", f"model attr {name}")
        try:
            i = getattr(i, name)
        except AttributeError:
            try:
                i = i[name]
            except Exception:
                return ("absent", f"instance has no attribute {'.'.join(path[:depth + 1])}")
        m = m2
    if isinstance(m, (CompoundPrior, ModifiedPrior)):
        return ("derived", None)
    return ("value", i)


def eval_expr(x, args):
    """plain-Python evaluation of an arithmetic node on the numbers (oracle for derived values)"""
    import operator as o

    if isinstance(x, Prior):
        return args[x]
    if isinstance(x, (int, float)):
        return x
    name = type(x).__name__
    if isinstance(x, CompoundPrior):
        f = {
            "SumPrior": o.add, "MultiplePrior": o.mul, "DivisionPrior": o.truediv,
            "FloorDivPrior": o.floordiv, "ModPrior": o.mod, "PowerPrior": o.pow,
        }[name]
        return f(eval_expr(x._left, args), eval_expr(x._right, args))
    if isinstance(x, ModifiedPrior):
        v = eval_expr(x.prior, args)
        return {"NegativePrior": lambda a: -a, "AbsolutePrior": abs, "Log": np.log, "Log10": np.log10}[name](v)
    raise TypeError(name)


def call(f, *a, **k):
    try:
        return ("ok", f(*a, **k))
    except Exception as e:  # the kind of exception is the observable
        return ("err", type(e).__name__ + ":" + str(e)[:120])


DERIVATIONS = ("uniform_floats", "prior_means", "prior_arguments", "with_limits")


def derive_model(model, how):
    """a model derived from `model` by one of the library's own routes (prior passing, tightened limits, replaced
    priors): a composition like any other, built by other code than the constructors"""
    ps = list(model.priors_ordered_by_id)
    if how == "uniform_floats":
        return model.mapper_from_uniform_floats([0.5] * len(ps), b=0.25)
    if how == "prior_means":
        import contextlib, io
        with contextlib.redirect_stdout(io.StringIO()):
            return model.mapper_from_prior_means([0.5] * len(ps), a=1.0)
    if how == "prior_arguments":
        return model.mapper_from_prior_arguments({p: af.UniformPrior(lower_limit=0.0, upper_limit=1.0) for p in ps})
    if how == "with_limits":
        return model.with_limits([(-1.0e3, 1.0e3)] * len(ps))
    raise ValueError(how)


def one_case(ctx, prog, vec=None, label="gen", derive=None):
    rng = ctx.rng
    try:
        H = gen_comp.run_program(prog)
    except Exception as e:
        ctx.hit("program-rejected")
        ctx.notes.setdefault("program_rejections", []).append(f"{type(e).__name__}: {str(e)[:80]}") if len(ctx.notes.get("program_rejections", [])) < 5 else None
        return
    model = H["root"]
    if derive:
        try:
            model = derive_model(model, derive)
        except Exception as e:  # noqa: whether passing succeeds is C12's subject
            ctx.hit("derivation-raised:" + type(e).__name__)
            return
        ctx.hit("derived-model:" + derive)
    comp = X.node_of(model)
    feats = features(comp)
    n_ids = len(feats["ids"])
    v = vec if vec is not None else test_vector(rng, model)
    req = {"p": "C01", "comp": comp, "v": [f2h(x) for x in v]}

    # ---- implementation
    impl = {}
    r = call(lambda: model.prior_count)
    impl["count"] = r[1] if r[0] == "ok" else r
    r = call(lambda: [list(map(str, p)) for p in model.paths])
    impl["paths"] = r[1] if r[0] == "ok" else r
    r = call(lambda: [list(map(str, p)) for p in model.unique_prior_paths])
    impl["unique_paths"] = r[1] if r[0] == "ok" else r
    r = call(lambda: [int(p.id) for p in model.priors_ordered_by_id])
    impl["ids"] = r[1] if r[0] == "ok" else r
    r_inst = call(model.instance_from_vector, v, ignore_prior_limits=True)
    impl["inst_vec"] = X.canon_inst(X.inst_of(r_inst[1])) if r_inst[0] == "ok" else {"err": r_inst[1]}

    # by-path route: one random place per parameter (plus some redundant consistent ones)
    path_args = None
    if isinstance(impl["paths"], list) and impl["paths"] and isinstance(impl["ids"], list):
        try:
            pp = model.path_priors_tuples
            by_id = {}
            for path, prior in pp:
                by_id.setdefault(prior.id, []).append(path)
            chosen = []
            rank = {pid: j for j, pid in enumerate(impl["ids"])}
            for pid, plist in by_id.items():
                ks = rng.sample(plist, k=rng.randint(1, len(plist)))
                for p_ in ks:
                    chosen.append((p_, v[rank[pid]]))
            rng.shuffle(chosen)
            path_args = chosen
        except Exception:
            path_args = None
    if path_args is not None:
        req["path_args"] = [[list(map(str, p)), f2h(x)] for p, x in path_args]
        r = call(model.instance_from_path_arguments, {tuple(p): x for p, x in path_args}, ignore_assertions=True)
        impl["inst_path"] = X.canon_inst(X.inst_of(r[1])) if r[0] == "ok" else {"err": r[1]}

    # ---- model
    ans = ctx.lean.ask(req)
    if "driver_error" in ans:
        ctx.disagree("driver", {"program": prog}, None, ans)
        return
    nontrivial = n_ids >= 2 and (
        feats["places"] > n_ids or feats["kinds"] & {"tuple", "arith", "modif", "array"} or feats["depth"] >= 2
    )
    ctx.case({"comp": comp, "v": req["v"]}, nontrivial=bool(nontrivial),
             sample={"program": gen_comp.program_text(prog)[:600], "vector": v, "paths": impl["paths"] if isinstance(impl["paths"], list) else str(impl["paths"])})
    for k in feats["kinds"]:
        ctx.hit("node:" + k)
    if feats["places"] > n_ids:
        ctx.hit("shared-prior")
    ctx.hit(f"params:{min(n_ids, 9)}")

    case = {"program": prog, "vector": v, "label": label}
    if derive:
        case["derive"] = derive
    ulps = 4 if has_loose(comp) else 0
    for key in ("count", "ids", "paths", "unique_paths"):
        if impl[key] != ans.get(key):
            ctx.disagree(f"C01.{key}", case, impl[key], ans.get(key))
    if ans.get("name_orders_agree") is False:
        ctx.disagree("C01.member_order.two_renderings", case, "posLe (splitOn)", "posLeL (character lists)")
    mi = X.canon_inst(ans["inst_vec"])
    if "err" in impl["inst_vec"]:
        if not contains_missing_or_domain(mi):
            ctx.disagree("C01.inst_vec", case, impl["inst_vec"], mi)
    else:
        d = X.inst_diff(impl["inst_vec"], mi, ulps)
        if d and not arith_domain(impl["inst_vec"], mi):
            ctx.disagree("C01.inst_vec", case, {"diff_at": d[0], "impl": d[1]}, {"model": d[2]})
    if "inst_path" in impl and "inst_path" in ans:
        mp = X.canon_inst(ans["inst_path"])
        if "err" in impl["inst_path"]:
            if not contains_missing_or_domain(mp):
                ctx.disagree("C01.inst_path", case, impl["inst_path"], mp)
        else:
            d = X.inst_diff(impl["inst_path"], mp, ulps)
            if d and not arith_domain(impl["inst_path"], mp):
                ctx.disagree("C01.inst_path", case, {"diff_at": d[0], "impl": d[1]}, {"model": d[2]})

    # ---- by-path route: the same values supplied by path give the same instance (oracle)
    if "inst_path" in impl and "err" not in impl["inst_vec"]:
        if "err" in impl["inst_path"]:
            if not impl["inst_path"]["err"].split(":")[0] in ("ZeroDivisionError", "OverflowError", "ValueError"):
                ctx.fail("C01-path-route", "instance_from_path_arguments raised for the model's own advertised paths", case, impl["inst_path"]["err"])
        else:
            d = X.inst_diff(impl["inst_vec"], impl["inst_path"], 0)
            if d:
                ctx.fail("C01-path-route", "values supplied by path give a different instance than the same values supplied as a vector",
                         case | {"path_args": [[list(map(str, p)), x] for p, x in path_args]}, {"diff_at": d[0], "vector": d[1], "by_path": d[2]})

    # ---- unit route: same order as the physical route
    try:
        units = [rng.uniform(0.05, 0.95) for _ in range(len(v))]
        phys = model.vector_from_unit_vector(units, ignore_prior_limits=True)
        i_unit = model.instance_from_unit_vector(units, ignore_prior_limits=True)
        i_phys = model.instance_from_vector(phys, ignore_prior_limits=True)
        a, b = X.canon_inst(X.inst_of(i_unit)), X.canon_inst(X.inst_of(i_phys))
        d = X.inst_diff(a, b, 0)
        if d:
            ctx.fail("C01-unit-route", "unit-vector route and physical-vector route give different instances",
                     case | {"units": units}, {"diff_at": d[0], "unit": d[1], "physical": d[2]})
        per_prior = [p.value_for(u, ignore_prior_limits=True) for p, u in zip(model.priors_ordered_by_id, units)]
        if [f2h(x) for x in per_prior] != [f2h(x) for x in phys]:
            ctx.fail("C01-unit-vector", "vector_from_unit_vector is not the per-prior map in parameter order", case | {"units": units})
        # the same values supplied *without* asking to ignore limits: every value lies strictly inside its own prior's
        # limits (it is that prior's quantile of a unit value in (0.05, 0.95)), so - assertions aside - the same instance
        # is built; a limit check that pairs values with other priors than they are assigned to shows here
        inside = all(p.lower_limit < x < p.upper_limit for p, x in zip(model.priors_ordered_by_id, phys))
        if inside:
            try:
                i_chk = model.instance_from_vector(phys, ignore_assertions=True) if "ignore_assertions" in model.instance_from_vector.__code__.co_varnames \
                    else model.instance_from_vector(phys)
                d2 = X.inst_diff(X.canon_inst(X.inst_of(i_chk)), b, 0)
                ctx.hit("vector-route-with-limit-check")
                if d2:
                    ctx.fail("C01-unit-route", "the physical-vector route with and without the limit check gives different instances",
                             case | {"units": units}, {"diff_at": d2[0]})
            except Exception as e2:  # noqa
                from autofit import exc as _exc
                if isinstance(e2, _exc.PriorLimitException):
                    ctx.fail("C01-values-checked-against-other-priors",
                             "a vector whose every value lies inside the limits of the prior it is assigned to is rejected by the limit check "
                             "of instance_from_vector", case | {"units": units}, {"vector": [float(x) for x in phys]})
                else:
                    ctx.hit("vector-route-with-limit-check-raised:" + type(e2).__name__)
    except Exception as e:
        ctx.hit("unit-route-raised:" + type(e).__name__)

    # ---- oracle: the property sentence on the real instance
    if r_inst[0] != "ok":
        if r_inst[1].split(":")[0] in ("ZeroDivisionError", "OverflowError", "ValueError"):
            ctx.hit("user-arithmetic-raised:" + r_inst[1].split(":")[0])  # e.g. p / (q - q): not the library's doing
            return
        if not contains_missing_or_domain(mi):
            ctx.fail("C01-instance-raises", "instance_from_vector raised for a vector of the right length", case, r_inst[1])
        return
    inst = r_inst[1]
    distinct = {}
    for path, prior in model.path_priors_tuples:
        distinct.setdefault(prior.id, prior)
    if model.prior_count != len(distinct):
        ctx.fail("C01-count", "prior_count is not the number of distinct free parameters", case,
                 {"prior_count": model.prior_count, "distinct": len(distinct)})
        return
    order = sorted(distinct)
    if [int(p.id) for p in model.priors_ordered_by_id] != order:
        ctx.fail("C01-order", "parameter order is not id order", case)
        return
    rank = {pid: j for j, pid in enumerate(order)}
    args = {distinct[pid]: v[rank[pid]] for pid in order}
    upaths = model.unique_prior_paths
    if len(upaths) != len(order):
        ctx.fail("C01-unique-paths", "unique_prior_paths has not one path per parameter", case)
    for path, prior in list(model.path_priors_tuples) + list(zip(upaths, [distinct[i] for i in order])):
        kind, got = navigate(model, inst, path)
        want = v[rank[prior.id]]
        if kind == "derived":
            continue
        if kind == "absent":
            cls = "C01-nonctor-prior-dropped" if nonctor_place(model, path) else "C01-place-absent"
            ctx.fail(cls, f"advertised path {'.'.join(map(str, path))} does not exist in the instance", case, got)
            continue
        ok = isinstance(got, (float, np.floating)) and f2h(float(got)) == f2h(want)
        if not ok:
            cls = classify_place(model, path)
            ctx.fail(cls, f"value at advertised path {'.'.join(map(str, path))} is not the vector entry of that parameter",
                     case, {"path": list(map(str, path)), "got": repr(got), "want": want})
    # derived values and constants
    check_derived_and_consts(ctx, model, inst, args, case, ())
    instances_independent(ctx, model, v, case)
    # models derived from this one (prior passing, tightened limits, replaced priors) are new models: the model
    # they were derived from still advertises and builds what it did
    try:
        ps = list(model.priors_ordered_by_id)
        model.mapper_from_uniform_floats([0.5] * len(ps), b=0.25)
        model.mapper_from_prior_arguments({p: af.UniformPrior(lower_limit=0.0, upper_limit=1.0) for p in ps})
        derived_ok = True
    except Exception as e:  # noqa: what passing does is C12's subject
        ctx.hit("derivation-raised:" + type(e).__name__)
        derived_ok = False
    if derived_ok:
        ctx.hit("original-after-derivation")
        comp2 = X.node_of(model)
        inst2 = None
        try:
            inst2 = X.canon_inst(X.inst_of(model.instance_from_vector(v, ignore_prior_limits=True)))
        except Exception as e:  # noqa
            inst2 = "raised:" + type(e).__name__
        inst1 = X.canon_inst(X.inst_of(inst))
        if json.dumps(comp2, sort_keys=True) != json.dumps(comp, sort_keys=True) or json.dumps(inst2, sort_keys=True) != json.dumps(inst1, sort_keys=True):
            ctx.fail("C01-model-changed-by-derivation",
                     "deriving another model (mapper_from_uniform_floats / mapper_from_prior_arguments) changed what the original model "
                     "advertises or builds", case, {"composition_changed": comp2 != comp, "instance_changed": inst2 != inst1})


def _reachable_ids(root):
    seen, stack = set(), [root]
    while stack:
        x = stack.pop()
        if id(x) in seen or isinstance(x, (int, float, str, bool, type(None), type)):
            continue
        seen.add(id(x))
        if isinstance(x, dict):
            stack.extend(x.values())
        elif isinstance(x, (list, tuple)):
            stack.extend(x)
        elif hasattr(x, "__dict__"):
            stack.extend(vars(x).values())
    return seen


def _scramble(x, held, seen):
    """overwrite every number of an instance in place (what an analysis is free to do with the instance it is given);
    objects the model itself holds (components fixed to a user's object are placed by reference) are left alone"""
    if id(x) in seen or id(x) in held or isinstance(x, (int, float, str, bool, type(None), type)):
        return
    seen.add(id(x))
    if isinstance(x, list):
        for k, v in enumerate(x):
            if isinstance(v, float):
                x[k] = 12345.678
            else:
                _scramble(v, held, seen)
    elif isinstance(x, tuple):
        for v in x:
            _scramble(v, held, seen)
    elif isinstance(x, dict):
        for k, v in list(x.items()):
            if isinstance(v, float):
                x[k] = 12345.678
            else:
                _scramble(v, held, seen)
    elif hasattr(x, "__dict__"):
        for k, v in list(vars(x).items()):
            if isinstance(v, float) and not isinstance(v, bool):
                try:
                    setattr(x, k, 12345.678)
                except Exception:  # noqa
                    pass
            else:
                _scramble(v, held, seen)


def instances_independent(ctx, model, v, case):
    """every instance is built from the model: what was done to an instance built earlier (an analysis may work on the
    instance it receives in place) does not show in the next one - also while the model is frozen, as it is
    during a search"""
    held = _reachable_ids(model)
    for frozen in (False, True):
        try:
            if frozen:
                model.freeze()
            a = model.instance_from_vector(v, ignore_prior_limits=True)
            before = X.canon_inst(X.inst_of(a))
            _scramble(a, held, set())
            after = X.canon_inst(X.inst_of(model.instance_from_vector(v, ignore_prior_limits=True)))
        except Exception as e:  # noqa
            ctx.hit("independence-probe-raised:" + type(e).__name__)
            continue
        finally:
            if frozen:
                model.unfreeze()
        ctx.hit("independence-probe:" + ("frozen" if frozen else "thawed"))
        d = X.inst_diff(before, after, 0)
        if d:
            ctx.fail("C01-instance-aliased",
                     "an instance built after an earlier instance was modified in place differs from that earlier instance as built "
                     "(fixed values / vector values are not taken from the model)", case | {"frozen": frozen},
                     {"diff_at": d[0], "first": d[1], "second": d[2]})
            return


def nonctor_place(model, path):
    m = model
    for name in path[:-1]:
        m = getattr(m, name)
    return isinstance(m, Model) and path[-1] not in m.constructor_argument_names and "_" not in path[-1]


def classify_place(model, path):
    m = model
    for name in path[:-1]:
        m = getattr(m, name)
    if isinstance(m, TuplePrior):
        n = len([k for k, v in m.__dict__.items() if isinstance(v, (Prior, float)) and k != "id"])
        if n >= 11:
            return "C01-tuple-name-sort"
        return "C01-tuple-member"
    return "C01-placement"


def check_derived_and_consts(ctx, m, i, args, case, path):
    """fixed values untouched; arithmetic nodes equal plain evaluation (recursively)"""
    if isinstance(m, (Model, Collection)):
        for k, v in list(m.__dict__.items()):
            if k.startswith("_") or k in ("id", "cls", "item_number"):
                continue
            try:
                child = getattr(i, k) if not isinstance(i, dict) else i[k]
            except AttributeError:
                if isinstance(v, (float, CompoundPrior, ModifiedPrior)) and (isinstance(m, Collection) or k in m.constructor_argument_names):
                    ctx.fail("C01-attr-missing", f"attribute {'.'.join(path + (k,))} missing from instance", case)
                continue
            if isinstance(v, float):
                if not (isinstance(child, float) and f2h(child) == f2h(v)):
                    ctx.fail("C01-const-changed", f"fixed value at {'.'.join(path + (k,))} changed", case, {"got": repr(child), "want": v})
            elif isinstance(v, (CompoundPrior, ModifiedPrior)):
                try:
                    want = eval_expr(v, args)
                except Exception:
                    continue
                if isinstance(want, complex) or isinstance(child, complex):
                    continue
                if not (isinstance(child, (float, np.floating)) and close(float(child), float(want), ulps=2)):
                    ctx.fail("C01-derived", f"derived parameter at {'.'.join(path + (k,))} is not the arithmetic of its operands", case,
                             {"got": repr(child), "want": repr(want)})
            elif isinstance(v, (Model, Collection)) and (isinstance(m, Collection) or isinstance(v, Model) or k in m.constructor_argument_names):
                check_derived_and_consts(ctx, v, child, args, case, path + (k,))


def contains_missing_or_domain(mi):
    s = str(mi)
    return "'missing'" in s or "nan" in s


def arith_domain(a, b):
    """python raised/complex or produced nan/inf where libm semantics differ: only for loose ops"""
    s = str(a) + str(b)
    return "complex" in s


def same_named_classes(ctx):
    """the instance a model builds is made by the constructor of *its* class with all its arguments, also when a
    model of another class of the same name (and module) was composed before"""
    import vlib

    class P2:  # same name and module as vlib.P2, one more constructor argument
        def __init__(self, a=0.0, b=1.0, extra=3.0):
            self.a = a
            self.b = b
            self.extra = extra

    P2.__module__, P2.__qualname__ = "vlib", "P2"
    case = {"label": "same-named-classes"}
    try:
        af.Model(vlib.P2).prior_count
        m = af.Model(P2, extra=7.25)  # the extra argument fixed to a value that is not its default
        inst = m.instance_from_vector([0.5] * m.prior_count, ignore_prior_limits=True)
        got = (m.prior_count, sorted(".".join(map(str, p)) for p in m.paths), type(inst) is P2, getattr(inst, "extra", "absent"))
    except Exception as e:  # noqa
        got = f"{type(e).__name__}: {str(e)[:120]}"
    ctx.hit("same-named-classes")
    if got != (2, ["a", "b"], True, 7.25):
        ctx.fail("C01-instance-of-other-class-signature",
                 "a model composed after a model of another class with the same name builds its instance with that other "
                 "class's argument list (a fixed constructor argument is not passed)", case, {"got": str(got), "want": "(2, ['a', 'b'], True, 7.25)"})


def run(ctx):
    ctx.rule = RULE
    ctx.assumptions = [
        "user classes are those of harness/vlib.py (constructors store their arguments)",
        "instances are compared up to attribute order; floats bit-exactly (4 ulp at pow, //, %, log, log10 nodes)",
    ]
    import json
    from common import VERIF

    corpus = sorted((VERIF / "corpus" / "C01").glob("*.json"))
    for f in corpus:
        c = json.loads(f.read_text())
        one_case(ctx, c["program"], c.get("vector"), label=f.name, derive=c.get("derive"))
    n = ctx.n(250, 5000)
    for k in range(n):
        big_tuple = ctx.rng.random() < 0.15
        prog = gen_comp.gen_program(ctx.rng, allow_tuple=True, allow_unordered_array=True)
        one_case(ctx, prog)
        if ctx.rng.random() < 0.2:
            # the same composition after one of the library's own derivations: what the derived model advertises
            # and builds must agree in the same way
            one_case(ctx, prog, derive=ctx.rng.choice(DERIVATIONS))
    same_named_classes(ctx)
    import c01_build

    c01_build.run_build(ctx)  # construction from the class signature, collections, member order


def replay(ctx, payload):
    case = payload.get("case") or payload.get("disagreements", [{}])[0].get("case")
    if case.get("label") == "same-named-classes":
        return same_named_classes(ctx)
    if case.get("label") in ("build", "names"):
        import c01_build

        return c01_build.replay_build(ctx, case)
    one_case(ctx, case["program"], case.get("vector"), label="replay", derive=case.get("derive"))
