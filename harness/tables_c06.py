#!/usr/bin/env python
"""Translator part of C06: regenerate lean/AFModel/Generated/C06.lean from the repository's *current* source
(run by harness/run.py before every build; harness/c06.py also compares these tables with the copy compiled
into the model driver on every run, so a stale build is noticed even without the proof part).

Purely syntactic (`ast`, nothing is imported).  For every function that takes part in the on-disk life of a fit
the *ordered* list of the calls that matter is extracted, each with the settings it is guarded by:

  fit, preFit, startResume, performUpdate, completedFit, postFit, outputInternal   NonLinearSearch
  restore, zipRemove, zip                                                          AbstractPaths
  zipDirectory                                                                     tools.util.zip_directory
  saveJson, saveSearchInternal, completed, saveSamples, saveSamplesInner,
  saveSamplesSummary                                                               DirectoryPaths
  timerStart, timerUpdate                                                          Timer
  writeTable                                                                       samples.write_table

`if` statements over a recognised setting (is_complete, archive exists, output.search_internal, remove_files,
samples_to_csv, force_pickle_overwrite, force_visualize_overwrite) become guards; every other `if` is flattened
(both branches, in source order).  A call on `self.paths` / `self.timer` (or a `self.save_*` of DirectoryPaths)
that the translator does not know is emitted as `.unknown "<name>"`: the conformance theorems of
AFProofs/C06.lean then no longer hold - a new write is a changed proof obligation."""
import ast
import json
import os
import sys
from pathlib import Path

HERE = Path(__file__).resolve().parent
REPO = Path(os.environ.get("VERIF_REPO") or "/repo")
OUT = HERE.parent / "lean" / "AFModel" / "Generated" / "C06.lean"

SEARCH = "autofit/non_linear/search/abstract_search.py"
APATHS = "autofit/non_linear/paths/abstract.py"
DPATHS = "autofit/non_linear/paths/directory.py"
UTIL = "autofit/tools/util.py"
TIMER = "autofit/non_linear/timer.py"
TABLE = "autofit/non_linear/samples/sample.py"

# (table name, file, class or None, function)
FUNCS = [
    ("fit", SEARCH, "NonLinearSearch", "fit"),
    ("preFit", SEARCH, "NonLinearSearch", "pre_fit_output"),
    ("startResume", SEARCH, "NonLinearSearch", "start_resume_fit"),
    ("performUpdate", SEARCH, "NonLinearSearch", "perform_update"),
    ("completedFit", SEARCH, "NonLinearSearch", "result_via_completed_fit"),
    ("postFit", SEARCH, "NonLinearSearch", "post_fit_output"),
    ("outputInternal", SEARCH, "NonLinearSearch", "output_search_internal"),
    ("restore", APATHS, "AbstractPaths", "restore"),
    ("zipRemove", APATHS, "AbstractPaths", "zip_remove"),
    ("zip", APATHS, "AbstractPaths", "_zip"),
    ("zipDirectory", UTIL, None, "zip_directory"),
    ("saveJson", DPATHS, "DirectoryPaths", "save_json"),
    ("saveSearchInternal", DPATHS, "DirectoryPaths", "save_search_internal"),
    ("completed", DPATHS, "DirectoryPaths", "completed"),
    ("saveSamples", DPATHS, "DirectoryPaths", "save_samples"),
    ("saveSamplesInner", DPATHS, "DirectoryPaths", "_save_samples"),
    ("saveSamplesSummary", DPATHS, "DirectoryPaths", "save_samples_summary"),
    ("timerStart", TIMER, "Timer", "start"),
    ("timerUpdate", TIMER, "Timer", "update"),
    ("writeTable", None, None, "write_table"),  # located by search below
]

# last component(s) of the dotted callee -> token (Lean constructor of AF.FitFS.Src.Tok)
CALLS = {
    "paths.restore": "restore",
    "self.pre_fit_output": "preFitOutput",
    "self.start_resume_fit": "startResumeFit",
    "self.result_via_completed_fit": "resultViaCompletedFit",
    "self.post_fit_output": "postFitOutput",
    "paths.save_all": "saveAll",
    "timer.start": "timerStart",
    "self._fit": "fitInner",
    "self.perform_update": "performUpdate",
    "analysis.save_results": "saveResults",
    "paths.completed": "completed",
    "timer.update": "timerUpdate",
    "paths.save_samples_summary": "saveSamplesSummary",
    "paths.save_samples": "saveSamples",
    "paths.save_latent_samples": "saveLatentSamples",
    "paths.save_summary": "saveSummary",
    "paths.load_samples_summary": "loadSamplesSummary",
    "paths.remove_search_internal": "removeSearchInternal",
    "self.output_search_internal": "outputSearchInternal",
    "paths.zip_remove": "zipRemove",
    "paths.save_search_internal": "saveSearchInternal",
    "self._zip": "zip",
    "zip_directory": "zipDirectory",
    "shutil.rmtree": "rmtreeOutput",
    "f.extractall": "extractAll",
    "os.remove": "removeZip",
    "os.replace": "osReplace",
    "os.rename": "osReplace",
    "open_atomic": "openAtomic",
    "self.save_json": "saveJson",
    "self._save_samples": "saveSamplesInner",
    "samples.save_covariance_matrix": "saveCovariance",
    "samples.write_table": "writeTable",
}
# calls on the watched objects that write nothing a later fit reads, or only read
IGNORED = {
    "paths.zip_remove_nuclear", "paths.load_samples", "paths.load_samples_info", "paths.load_search_internal",
    "paths.load_json", "paths.is_object", "paths.load_object", "analysis.save_results_combined",
    "analysis.save_attributes", "self._path_for_json", "self._path_for_csv", "self._path_for_pickle",
    "self.save_identifier", "self.save_parent_identifier", "self._save_model_info", "self._save_metadata",
    "self._save_model_start_point", "self.save_unique_tag",
}
WATCHED_PREFIXES = ("paths.", "timer.", "self.save_", "self._save_")
CONDS = {
    "is_complete": "complete",
    "_zip_path": "zipExists",
    "search_internal": "searchInternal",
    "remove_files": "removeFiles",
    "samples_to_csv": "samplesCsv",
    "force_pickle_overwrite": "forcePickle",
    "force_visualize_overwrite": "forceVisualize",
}


def dotted(node):
    parts = []
    while isinstance(node, ast.Attribute):
        parts.append(node.attr)
        node = node.value
    if isinstance(node, ast.Name):
        parts.append(node.id)
    else:
        parts.append("?")
    return ".".join(reversed(parts))


def find_cond(expr, pol=True, alias=None):
    """first recognised setting in a test -> (cond, polarity); `alias`: local names bound to a setting"""
    alias = alias or {}
    if isinstance(expr, ast.UnaryOp) and isinstance(expr.op, ast.Not):
        return find_cond(expr.operand, not pol, alias)
    if isinstance(expr, ast.BoolOp):
        for v in expr.values:
            r = find_cond(v, pol, alias)
            if r:
                return r
        return None
    for n in ast.walk(expr):
        key = None
        if isinstance(n, ast.Attribute):
            key = n.attr
        elif isinstance(n, ast.Name):
            if n.id in alias:
                c, p = alias[n.id]
                return c, (p == pol)
            continue  # (a bare name is a setting only through a local binding)
        elif isinstance(n, ast.Constant) and isinstance(n.value, str):
            key = n.value
        if key in CONDS:
            return CONDS[key], pol
    return None


class Lin:
    def __init__(self, table, params):
        self.table = table
        self.params = params
        self.out = []
        self.alias = {}

    def emit(self, tok, guards):
        self.out.append((tok, list(guards)))

    # -- expressions, in evaluation order (children first)
    def expr(self, node, guards):
        if node is None or isinstance(node, (ast.Lambda, ast.FunctionDef)):
            return
        for child in ast.iter_child_nodes(node):
            if isinstance(child, (ast.expr, ast.keyword, ast.withitem, ast.comprehension)):
                self.expr(child, guards)
        if isinstance(node, ast.Call):
            self.call(node, guards)
        elif isinstance(node, ast.Attribute) and node.attr == "samples" and dotted(node.value).endswith("paths"):
            self.emit("loadSamples", guards)

    def call(self, node, guards):
        name = dotted(node.func)
        parts = name.split(".")
        two = ".".join(parts[-2:])
        one = parts[-1]
        mode = None
        if one in ("open", "open_") and len(parts) == 1:
            args = [a.value for a in node.args[1:] if isinstance(a, ast.Constant) and isinstance(a.value, str)]
            mode = args[0] if args else "r"
            if any(c in mode for c in "wax+"):
                self.emit("openPlain", guards)
            return
        if two == "zipfile.ZipFile" or one == "ZipFile":
            m = [a.value for a in node.args[1:] if isinstance(a, ast.Constant) and isinstance(a.value, str)]
            if m and "w" in m[0]:
                first = node.args[0]
                target = first.id if isinstance(first, ast.Name) else "?"
                # the archive is written under the name the caller asked for, or under a temporary one
                self.emit("zipWriteInPlace" if target in self.params else "zipWriteTmp", guards)
            else:
                self.emit("zipValidate", guards)
            return
        if one == "write_table" and len(parts) == 1:
            self.emit("writeTable", guards)
            return
        for key in (two, one):
            if key in CALLS and (key == two or "." not in key):
                self.emit(CALLS[key], guards)
                return
        if two in IGNORED:
            return
        if any(two.startswith(p) or (("." + two).find("." + p) >= 0) for p in WATCHED_PREFIXES):
            self.emit(("unknown", two), guards)

    # -- statements
    def block(self, stmts, guards):
        for s in stmts:
            self.stmt(s, guards)

    def stmt(self, s, guards):
        if isinstance(s, (ast.FunctionDef, ast.AsyncFunctionDef, ast.ClassDef)):
            return
        if isinstance(s, ast.Assign) and len(s.targets) == 1 and isinstance(s.targets[0], ast.Name):
            c = find_cond(s.value, True, self.alias)
            if c:
                self.alias[s.targets[0].id] = c
            else:
                self.alias.pop(s.targets[0].id, None)
        if isinstance(s, ast.If):
            g = find_cond(s.test, True, self.alias)
            self.expr(s.test, guards)
            if g:
                self.block(s.body, guards + [g])
                self.block(s.orelse, guards + [(g[0], not g[1])])
            else:
                self.block(s.body, guards)
                self.block(s.orelse, guards)
        elif isinstance(s, ast.Try):
            self.block(s.body, guards)
            for h in s.handlers:
                self.block(h.body, guards)
            self.block(s.orelse, guards)
            self.block(s.finalbody, guards)
        elif isinstance(s, (ast.With, ast.AsyncWith)):
            for it in s.items:
                self.expr(it.context_expr, guards)
            self.block(s.body, guards)
        elif isinstance(s, (ast.For, ast.While)):
            self.expr(getattr(s, "iter", None) or getattr(s, "test", None), guards)
            self.block(s.body, guards)
            self.block(s.orelse, guards)
        else:
            for child in ast.iter_child_nodes(s):
                if isinstance(child, ast.expr):
                    self.expr(child, guards)


def find_function(tree, cls, name):
    scope = tree.body
    if cls:
        for n in tree.body:
            if isinstance(n, ast.ClassDef) and n.name == cls:
                scope = n.body
                break
        else:
            raise RuntimeError(f"class {cls} not found")
    for n in scope:
        if isinstance(n, (ast.FunctionDef, ast.AsyncFunctionDef)) and n.name == name:
            return n
    raise RuntimeError(f"function {cls}.{name} not found")


def locate_write_table():
    """the module-level function `write_table` that Samples.write_table delegates to"""
    for rel in ("autofit/non_linear/samples/sample.py", "autofit/non_linear/samples/samples.py",
                "autofit/non_linear/samples/util.py", "autofit/text/formatter.py", "autofit/tools/util.py"):
        p = REPO / rel
        if p.exists() and any(isinstance(n, ast.FunctionDef) and n.name == "write_table" for n in ast.parse(p.read_text()).body):
            return rel
    for p in sorted((REPO / "autofit").rglob("*.py")):
        try:
            tree = ast.parse(p.read_text())
        except SyntaxError:
            continue
        if any(isinstance(n, ast.FunctionDef) and n.name == "write_table" for n in tree.body):
            return str(p.relative_to(REPO))
    raise RuntimeError("write_table not found")


def tables():
    """-> {table name: [[token, [[cond, polarity], ...]], ...]}  (token = str, or ["unknown", name])"""
    out = {}
    trees = {}
    for tname, rel, cls, fn in FUNCS:
        if rel is None:
            rel = locate_write_table()
        if rel not in trees:
            trees[rel] = ast.parse((REPO / rel).read_text())
        f = find_function(trees[rel], cls, fn)
        lin = Lin(tname, {a.arg for a in f.args.args})
        lin.block(f.body, [])
        out[tname] = [[tok if isinstance(tok, str) else list(tok), [[c, bool(p)] for c, p in gs]] for tok, gs in lin.out]
    return out


def lean_tok(tok):
    if isinstance(tok, str):
        return "." + tok
    name = tok[1]
    assert name.isascii() and '"' not in name and "\\" not in name, name
    return f'(.unknown "{name}")'


def lean_source(tabs):
    lines = ["-- generated by harness/tables_c06.py from the repository's working tree; do not edit",
             "import AFModel.FitSrc", "", "namespace AF.FitFS.Gen", "open AF.FitFS.Src", ""]
    for tname, _, cls, fn in FUNCS:
        rows = tabs[tname]
        body = ",\n".join(
            "  ⟨" + lean_tok(tok) + ", [" + ", ".join(f"(.{c}, {'true' if p else 'false'})" for c, p in gs) + "]⟩"
            for tok, gs in rows)
        lines.append(f"/-- `{(cls + '.') if cls else ''}{fn}` -/")
        lines.append(f"def {tname} : List GCall := [" + ("\n" + body if rows else "") + "]")
        lines.append("")
    lines.append("end AF.FitFS.Gen")
    return "\n".join(lines) + "\n"


def main():
    tabs = tables()
    src = lean_source(tabs)
    OUT.parent.mkdir(exist_ok=True)
    if not OUT.exists() or OUT.read_text() != src:
        OUT.write_text(src)
    if "--json" in sys.argv:
        print(json.dumps(tabs))


if __name__ == "__main__":
    main()
