"""Claims per property (source for MANIFEST.json via tools/gen_manifest.py)."""

MODEL_NOTE = (
    "Trusted: Lean 4.33 kernel; axioms propext/Classical.choice/Quot.sound only (audited per theorem on every run); "
    "the hand-written model is tied to the code only by the differential correspondence harness (generator quality bounds it); "
    "user classes are those of harness/vlib.py; CPython dict order, sorted() stability and float arithmetic are modelled, not verified."
)

CLAIMED = {
    "C01": {
        "text": "Theorems (all compositions, all vectors, any value type): parameter order strictly increasing in id and "
                "count = number of distinct parameters; advertised paths are a permutation of all places sorted by id; "
                "vector_placement: the i-th value is at every addressable place of the i-th parameter (shared places included); "
                "fixed values untouched; arithmetic nodes = operation on operand values; tuple value = members in member order; "
                "routes_agree: the instance depends only on the value each parameter receives (vector / unit / by-path routes). "
                "The model (walk, ordering, _instance_for_arguments of Model/Collection/TuplePrior/Array/compound priors) is "
                "compared bit-exactly with the real code on random API programs on every run; the property sentence is also "
                "evaluated directly on the real instances.",
        "note": MODEL_NOTE + " Not modelled: DeferredInstance, annotation prior models, user constructors that do not store their arguments; "
                "the concrete member order posLe is tested (#guard), the sorting theorems hold for any total transitive order.",
    },
}

NOT_APPLICABLE = {}
