"""Deterministic scheduler for the hand-written pools (C14).

The REAL `SneakyPool`, `SneakyProcess.run`, `Process.run`, `Process.run_jobs` code is executed unmodified;
only `multiprocessing.Queue`, `multiprocessing.Process.start` and `.join` are replaced while a session is
open.  A "process" becomes a thread running the real `run()` method; every `put/get/empty` on a fake queue
is one *turn* that has to be granted by the schedule.

Determinism: a scheduling decision is taken only when every live actor is parked at a queue operation, so
the interleaving at queue-operation granularity is a function of the schedule alone.

schedule  : list of ints.  0 = the caller (main thread), k >= 1 = worker k-1 (in start() order),
            -k = worker k-1 and, if the operation it is parked at is `empty()`, that call reports a stale
            `True` (documented unreliability of multiprocessing.Queue.empty()).
            An entry naming an actor that does not exist / has finished is consumed as a no-op; an entry
            naming an actor parked at a blocking get() on an empty queue is consumed as a no-op ("blocked").
            After the schedule is exhausted actors are served round-robin.
"""
import collections
import contextlib
import multiprocessing
import queue as _queue
import threading


class Abort(BaseException):
    """raised inside a parked actor when the session is shut down or declared stuck"""


class Stuck(Exception):
    """the caller made no progress although every actor was served fairly"""


class Sched:
    def __init__(self, stall_rounds=25):
        self.cv = threading.Condition()
        self.parked = {}  # actor -> bool (live actors only)
        self.order = [0]  # actors in creation order (round robin order)
        self.schedule = []
        self.pos = 0
        self.rr = 0
        self.granted = None
        self.abort = False
        self.stuck = False
        self.free = False
        self.stall = 0
        self.stall_rounds = stall_rounds
        self.turns = 0
        self.queues = []
        self.threads = []
        self.thread_actor = {threading.get_ident(): 0}
        self.parked[0] = False
        self.worker_errors = []
        self.stale_fired = 0
        self.ops = collections.Counter()
        self.caller_took = []
        self.pos_at_first_spawn = None
        self.proc_actor = {}

    # ---- actors
    def actor(self):
        return self.thread_actor.get(threading.get_ident())

    def took(self, actor, item):
        """log of what the caller (actor 0) took from queues, in order"""
        if actor == 0:
            self.caller_took.append(item)

    def begin(self, schedule):
        with self.cv:
            self.schedule = list(schedule)
            self.pos = 0
            self.rr = 0
            self.stall = 0
            self.stuck = False

    def is_alive(self, proc):
        """a "process" is alive from start() until its run() has returned (read by the caller while every
        other actor is parked or finished, hence a function of the schedule)"""
        with self.cv:
            idx = self.proc_actor.get(id(proc))
            return idx is not None and idx in self.parked

    def spawn(self, proc):
        with self.cv:
            idx = len(self.order)
            self.order.append(idx)
            self.parked[idx] = False
            self.proc_actor[id(proc)] = idx
            if self.pos_at_first_spawn is None:
                self.pos_at_first_spawn = self.pos
        t = threading.Thread(target=self._run_worker, args=(proc, idx), daemon=True, name=f"afw{idx}")
        self.threads.append(t)
        t.start()
        # the new actor runs alone up to its first queue operation (or its end): start-up code of two
        # "processes" never overlaps in time, so that the interleaving stays a function of the schedule
        with self.cv:
            while idx in self.parked and not self.parked[idx] and not self.abort:
                self.cv.wait(1.0)

    def _run_worker(self, proc, idx):
        with self.cv:
            self.thread_actor[threading.get_ident()] = idx
        try:
            proc.run()
        except Abort:
            pass
        except BaseException as e:  # a crash of the worker loop itself
            self.worker_errors.append((idx, repr(e)))
        finally:
            with self.cv:
                self.parked.pop(idx, None)
                self.cv.notify_all()

    def shutdown(self):
        with self.cv:
            self.abort = True
            self.cv.notify_all()
        for t in self.threads:
            t.join(5)
        self.free = True

    def idle(self):
        """the calling actor parks for one turn that does nothing (the harness waiting between two calls into the
        library, so that the other actors can be served according to the schedule)"""
        return self.turn(lambda stale: (True, None), progress=False, kind="idle")

    def drain(self, schedule):
        """serve exactly `schedule` while the caller does nothing (its own entries are idle turns)"""
        self.begin(schedule)
        n = len(self.schedule)
        while self.pos < n:
            self.idle()

    def live_workers(self):
        with self.cv:
            return sorted(a for a in self.parked if a != 0)

    # ---- scheduling
    def _decide(self):
        """called with the lock held, when every live actor is parked and nothing is granted"""
        while True:
            if self.pos < len(self.schedule):
                e = self.schedule[self.pos]
                self.pos += 1
            else:
                e = self.order[self.rr % len(self.order)]
                self.rr += 1
                self.stall += 1
                if self.stall > self.stall_rounds * len(self.order):
                    self.stuck = True
                    self.abort = True
                    self.cv.notify_all()
                    return
            a = abs(e)
            if a not in self.parked:
                continue
            self.granted = (a, e < 0)
            self.cv.notify_all()
            return

    def turn(self, attempt, progress=True, kind="op"):
        """attempt(stale) -> (performed, value).  Blocks until the schedule grants this actor a turn."""
        if self.free:
            ok, val = attempt(False)
            if not ok:
                raise _queue.Empty()
            return val
        a = self.actor()
        if a is None:  # a thread the session does not know (e.g. GC finaliser): do not schedule it
            ok, val = attempt(False)
            if not ok:
                raise _queue.Empty()
            return val
        with self.cv:
            self.parked[a] = True
            self.cv.notify_all()
            try:
                while True:
                    if self.abort:
                        raise Abort()
                    if self.granted is None and all(self.parked.values()):
                        self._decide()
                        if self.abort:
                            raise Abort()
                    if self.granted is not None and self.granted[0] == a:
                        stale = self.granted[1]
                        self.granted = None
                        ok, val = attempt(stale)
                        self.turns += 1
                        if ok:
                            self.ops[kind] += 1
                            if progress:
                                self.stall = 0
                            return val
                        self.ops["blocked"] += 1
                        continue
                    self.cv.wait(1.0)
            finally:
                if a in self.parked:
                    self.parked[a] = False
                self.cv.notify_all()


_EMPTY = object()


class FakeQueue:
    """FIFO.  One interaction = one turn: `empty()` answering False followed by `get()` of the same actor is
    ONE interaction when that actor is the only consumer the queue has had (nobody can take the item in
    between), so `if not q.empty(): q.get()` and `q.get_nowait()` cost the same."""

    def __init__(self, sched):
        self.s = sched
        self.items = collections.deque()
        self.puts = 0
        self.consumers = set()
        self.fused_for = None
        sched.queues.append(self)

    def put(self, x, block=True, timeout=None):
        def attempt(stale):
            self.items.append(x)
            self.puts += 1
            return True, None

        self.s.turn(attempt, kind="put")

    put_nowait = put

    def empty(self):
        a = self.s.actor()
        self.consumers.add(a)

        def attempt(stale):
            if stale and self.items:
                self.s.stale_fired += 1
                return True, True
            e = len(self.items) == 0
            self.fused_for = a if (not e and self.consumers == {a}) else None
            return True, e

        return self.s.turn(attempt, progress=False, kind="empty")

    def qsize(self):
        return self.s.turn(lambda stale: (True, len(self.items)), progress=False, kind="qsize")

    def get(self, block=True, timeout=None):
        a = self.s.actor()
        self.consumers.add(a)
        if self.fused_for is not None and self.fused_for == a and self.items and not self.s.free:
            self.fused_for = None
            v = self.items.popleft()
            self.s.took(a, v)
            return v
        self.fused_for = None

        def attempt(stale):
            if self.items:
                v = self.items.popleft()
                self.s.took(a, v)
                return True, v
            if not block or timeout is not None:
                return True, _EMPTY
            return False, None

        v = self.s.turn(attempt, kind="get")
        if v is _EMPTY:
            raise _queue.Empty()
        return v

    def get_nowait(self):
        return self.get(False)

    def close(self):
        pass

    def join_thread(self):
        pass

    def cancel_join_thread(self):
        pass


@contextlib.contextmanager
def fake_multiprocessing(sched):
    """While open, queues are FakeQueues and Process.start() runs `run()` in a scheduled thread."""
    o_queue = multiprocessing.Queue
    o_start = multiprocessing.Process.start
    o_join = multiprocessing.Process.join
    o_alive = multiprocessing.Process.is_alive

    def start(self):
        sched.spawn(self)

    def join(self, timeout=None):
        return None

    multiprocessing.Queue = lambda *a, **k: FakeQueue(sched)
    multiprocessing.Process.start = start
    multiprocessing.Process.join = join
    multiprocessing.Process.is_alive = lambda self: sched.is_alive(self)
    try:
        yield
    finally:
        multiprocessing.Queue = o_queue
        multiprocessing.Process.start = o_start
        multiprocessing.Process.join = o_join
        multiprocessing.Process.is_alive = o_alive
