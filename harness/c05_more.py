"""C05 growth: conversions of the searches whose packages are not installed here (Nautilus, UltraNest,
Zeus), weights, and the transformations applied to a reported sample list.

* Nautilus / UltraNest / Zeus: the REAL `samples_via_internal_from` of each search class is run on a STAND-IN
  for the sampler's internal object (the package is not installed): an object that carries generated arrays
  satisfying the sampler's documented contract for a deterministic likelihood and answers exactly the calls
  the conversion makes (`posterior()`, `results["weighted_samples"]`, `get_chain / get_log_prob`). For Zeus the
  module `zeus` itself is replaced, while the conversion runs, by a stub whose only function is `AutoCorrTime`
  (emcee's integrated time; it only chooses `discard` and `thin`). The sampler contract is a hypothesis.
* weights: `sum(samples.weight_list)` against `weightSum`; where the sampler normalises (dynesty's
  `exp(logwt - logz[-1])`, nautilus' `exp(log_w)`, ultranest's `weights`) the sum is 1 up to rounding.
* transformations of one reported sample list (of every conversion, and of lists with NaN / infinite / tied
  likelihoods): `samples_above_weight_threshold_from`, `minimise`, `with_paths`, `without_paths`,
  `from_list_info_and_model`, `summary` keep the tuple (values, likelihood, prior, weight) of every sample they
  keep and the best fit; compared with `AFModel/SamplesMore.lean`.

Wired into `harness/c05.py` by `install(c05)`."""
import math
import os
import sys
import types
import copy
from types import SimpleNamespace

import numpy as np

import autofit as af
from common import f2h, h2f

KINDS = ("nautilus", "ultranest", "zeus")
C = None  # the c05 module (set by install)


def install(c05):
    global C
    C = c05
    c05.SYNTH.update({"nautilus": synth_nautilus, "ultranest": synth_ultranest, "zeus": synth_zeus,
                      "xform": synth_xform})


# ---------------------------------------------------------------------------------------------
# stand-ins for the samplers' internal objects


class NautilusStandIn:
    """what `Nautilus.samples_via_internal_from / samples_info_from` read off a `nautilus.Sampler`"""

    def __init__(self, points, log_w, log_l):
        self._p, self._w, self._l = np.array(points, dtype=float), np.array(log_w), np.array(log_l)
        self.n_like = 3 * len(log_l) + 7
        self.n_live = 20

    def posterior(self):
        return self._p, self._w, self._l

    def evidence(self):
        return -1.25


class ZeusStandIn:
    """what `Zeus.samples_via_internal_from / samples_info_from / auto_correlations_from` read off a
    `zeus.EnsembleSampler`: `get_chain` and `get_log_prob` slice the steps `[discard::thin]` and flatten both
    arrays in the same order (`walker_major` = `order='F'`)"""

    def __init__(self, chain, logp, walker_major):
        self.chain = np.array(chain, dtype=float)
        self.logp = np.array(logp, dtype=float)
        self.walker_major = bool(walker_major)
        self.ncall_total = self.chain.shape[0] * self.chain.shape[1]
        self.iteration = self.chain.shape[0]
        self.calls = []

    def get_chain(self, flat=False, thin=1, discard=0):
        c = self.chain[discard::thin, :, :]
        if flat:
            return c.reshape((-1, self.chain.shape[2]), order="F" if self.walker_major else "C")
        return c

    def get_log_prob(self, flat=False, thin=1, discard=0):
        self.calls.append((discard, thin))
        c = self.logp[discard::thin, :]
        if flat:
            return c.reshape((-1,), order="F" if self.walker_major else "C")
        return c


class zeus_stub:
    """`import zeus` inside the conversion finds a module with `AutoCorrTime` only"""

    def __enter__(self):
        import emcee

        self.old = sys.modules.get("zeus")
        m = types.ModuleType("zeus")
        m.__doc__ = "stand-in installed by harness/c05_more.py while a Zeus conversion runs"

        def AutoCorrTime(samples):
            return emcee.autocorr.integrated_time(np.asarray(samples), tol=0, quiet=True)

        m.AutoCorrTime = AutoCorrTime
        sys.modules["zeus"] = m
        return m

    def __exit__(self, *a):
        if self.old is None:
            sys.modules.pop("zeus", None)
        else:
            sys.modules["zeus"] = self.old


# ---------------------------------------------------------------------------------------------
# conversion-level cases


def _rows(ctx, model, analysis, lo=1, hi=14):
    rng = ctx.rng
    n = rng.randint(lo, hi)
    return C.with_best_tie(rng, model, analysis, C.tie_some(rng, [C.random_row(rng, model) for _ in range(n)]))


def _norm_logw(rng, n):
    logw = [rng.uniform(-25.0, 0.0) for _ in range(n)]
    m = max(logw)
    tot = m + math.log(sum(math.exp(x - m) for x in logw))
    return [x - tot for x in logw]


def synth_nautilus(ctx, prog, model, analysis, arrays=None):
    import autofit as af

    rng = ctx.rng
    if arrays is None:
        rows = _rows(ctx, model, analysis)
        arrays = {"points": rows, "log_l": [C.true_ll(model, analysis, r) for r in rows],
                  "log_w": _norm_logw(rng, len(rows))}
    internal = NautilusStandIn(arrays["points"], arrays["log_w"], arrays["log_l"])
    search = af.Nautilus()
    samples = search.samples_via_internal_from(model=model, search_internal=internal)
    case = {"mode": "synth", "kind": "nautilus", "program": prog, "analysis": analysis.spec(), "arrays": arrays}
    req = {"q": "nautilus", "points": [C.hexrow(r) for r in arrays["points"]], "logw": C.hexrow(arrays["log_w"]),
           "logl": C.hexrow(arrays["log_l"])}
    nbad = C.finish_case(ctx, "nautilus", case, req, model, analysis, samples, search, internal)
    weight_sum_check(ctx, "nautilus", case, samples, normalised=True)
    xform_check(ctx, "nautilus", case, model, samples)
    return nbad


def synth_ultranest(ctx, prog, model, analysis, arrays=None):
    import autofit as af

    rng = ctx.rng
    if arrays is None:
        rows = _rows(ctx, model, analysis)
        arrays = {"points": rows, "logl": [C.true_ll(model, analysis, r) for r in rows],
                  "weights": [math.exp(x) for x in _norm_logw(rng, len(rows))]}
    results = {"weighted_samples": {"points": np.array(arrays["points"], dtype=float),
                                    "logl": np.array(arrays["logl"]), "weights": np.array(arrays["weights"])},
               "logz": -2.5, "ncall": 5 * len(arrays["logl"])}
    internal = SimpleNamespace(results=results)
    search = af.UltraNest()
    samples = search.samples_via_internal_from(model=model, search_internal=internal)
    case = {"mode": "synth", "kind": "ultranest", "program": prog, "analysis": analysis.spec(), "arrays": arrays}
    req = {"q": "ultranest", "points": [C.hexrow(r) for r in arrays["points"]], "logl": C.hexrow(arrays["logl"]),
           "weights": C.hexrow(arrays["weights"])}
    nbad = C.finish_case(ctx, "ultranest", case, req, model, analysis, samples, search, results)
    weight_sum_check(ctx, "ultranest", case, samples, normalised=True)
    xform_check(ctx, "ultranest", case, model, samples)
    return nbad


def synth_zeus(ctx, prog, model, analysis, arrays=None):
    import autofit as af
    from autofit.non_linear.search.mcmc.auto_correlations import AutoCorrelationsSettings

    rng = ctx.rng
    if arrays is None:
        test_mode = rng.random() < 0.35
        if test_mode:
            steps, walkers = rng.randint(11, 32), rng.randint(1, 4)
            chain = C.ar1_chain(rng, model, steps, walkers, rng.uniform(0.2, 0.8))
        else:
            steps, walkers = rng.randint(50, 90), rng.randint(2, 4)
            chain = C.ar1_chain(rng, model, steps, walkers, rng.uniform(0.55, 0.85))
        if rng.random() < 0.4:
            s, w = rng.randrange(steps), rng.randrange(walkers)
            s2, w2 = rng.randrange(steps), rng.randrange(walkers)
            chain[s2][w2] = list(chain[s][w])
        logp = [[C.true_ll(model, analysis, r) + C.lib_prior_sum(model, r) for r in step] for step in chain]
        arrays = {"chain": chain, "logp": logp, "test_mode": test_mode, "check_size": rng.randint(2, 6),
                  "walker_major": rng.random() < 0.5}
    internal = ZeusStandIn(arrays["chain"], arrays["logp"], arrays["walker_major"])
    search = af.Zeus(nwalkers=len(arrays["chain"][0]), nsteps=len(arrays["chain"]),
                     auto_correlation_settings=AutoCorrelationsSettings(check_for_convergence=False,
                                                                        check_size=arrays["check_size"]))
    case = {"mode": "synth", "kind": "zeus", "program": prog, "analysis": analysis.spec(), "arrays": arrays}
    old = os.environ.get("PYAUTOFIT_TEST_MODE")
    try:
        with zeus_stub():
            if arrays["test_mode"]:
                os.environ["PYAUTOFIT_TEST_MODE"] = "1"
                discard, thin = 5, 5
            else:
                os.environ.pop("PYAUTOFIT_TEST_MODE", None)
                tmax = float(np.max(search.auto_correlations_from(search_internal=internal).times))
                discard, thin = int(3.0 * tmax), int(tmax / 2.0)
            try:
                samples = search.samples_via_internal_from(model=model, search_internal=internal)
            except ValueError:
                if thin == 0:
                    ctx.hit("zeus:thin-zero-rejected")  # a slice step of zero; not a property matter
                    return 0
                raise
    finally:
        if old is None:
            os.environ.pop("PYAUTOFIT_TEST_MODE", None)
        else:
            os.environ["PYAUTOFIT_TEST_MODE"] = old
    ctx.hit(f"zeus:discard={min(discard, 40) // 10 * 10}+,thin={min(thin, 6)},"
            f"{'walker' if arrays['walker_major'] else 'step'}-major")
    if len(samples.sample_list) == 0:
        ctx.hit("zeus:empty-after-burn-in")
        return 0
    req = {"q": "zeus", "same_slice": True, "discard": discard, "thin": thin, "walker_major": arrays["walker_major"],
           "chain": [[C.hexrow(r) for r in step] for step in arrays["chain"]],
           "logp": [C.hexrow(step) for step in arrays["logp"]]}
    nbad = C.finish_case(ctx, "zeus", case, req, model, analysis, samples, search, internal)
    xform_check(ctx, "zeus", case, model, samples)
    return nbad


# ---------------------------------------------------------------------------------------------
# weights


def weight_sum_check(ctx, kind, case, samples, normalised):
    """oracle part: weights that the sampler normalises sum to 1 (the model side is compared in `xform_check`)"""
    ws = [float(w) for w in samples.weight_list]
    if not ws:
        return
    tot = math.fsum(ws)
    if normalised and not abs(tot - 1.0) <= 1e-9:
        ctx.fail(f"C05-{kind}-weights-not-normalised", f"{kind}: the weights of the reported samples do not sum to 1 although "
                 "the sampler's normalisation was applied", case, {"sum": tot, "n": len(ws)})
    ctx.hit(f"weights-sum-to-one:{kind}")


# ---------------------------------------------------------------------------------------------
# transformations of a sample list


def _tuple_of(model_keys, s):
    kw = s.kwargs
    return ([[list(k) if isinstance(k, tuple) else [k], f2h(float(v))] for k, v in kw.items()],
            f2h(float(s.log_likelihood)), f2h(float(s.log_prior)), f2h(float(s.weight)))


def _sample_json(keys, s):
    return {"params": C.hexrow([float(s.kwargs[k]) for k in keys]), "ll": f2h(float(s.log_likelihood)),
            "lp": f2h(float(s.log_prior)), "w": f2h(float(s.weight))}


def _m_tuple(m):
    return (m["params"], m["ll"], m["lp"], m["w"])


def _k_tuple(m):
    return (m["kw"], m["ll"], m["lp"], m["w"])


def gen_paths(rng, model):
    """paths for `with_paths` / `without_paths`: prefixes of parameter paths, whole paths, paths extended by a
    further name (a key that is a proper prefix of a path matches too), a name that occurs nowhere"""
    keys = [tuple(p) for p in model.unique_prior_paths]
    allp = [tuple(p) for g in model.all_paths for p in g]
    out = []
    for _ in range(rng.randint(1, 3)):
        r = rng.random()
        p = rng.choice(allp if r < 0.8 else keys)
        if r < 0.45:
            out.append(list(p[:rng.randint(1, len(p))]))
        elif r < 0.8:
            out.append(list(p))
        elif r < 0.9:
            out.append(list(p) + ["zz"])
        else:
            out.append(["nowhere"])
    return out


def xform_check(ctx, kind, case, model, samples, threshold=None, paths=None):
    """the transformations of the real `Samples` object against `AFModel/SamplesMore.lean`, and the oracle: every
    sample a transformation keeps is one of the original samples with its likelihood, prior and weight (and the
    values of the keys it keeps) unchanged; the best fit after the transformation is the best fit of what it kept"""
    rng = ctx.rng
    sl = list(samples.sample_list)
    if not sl:
        return
    keys = [tuple(p) for p in model.unique_prior_paths]
    if any(set(s.kwargs.keys()) != set(keys) for s in sl):
        return  # reported by the conversion oracle
    ws = [float(s.weight) for s in sl]
    if threshold is None:
        threshold = rng.choice([rng.choice(ws), 0.5 * (min(ws) + max(ws)), 0.5 * min(ws), 1e-10, 0.0, max(ws)])
    if paths is None:
        paths = gen_paths(rng, model)
    case = dict(case, xform={"threshold": threshold, "paths": paths})
    tag = f"{kind}:xform"
    req = {"p": "C05", "q": "xform", "samples": [_sample_json(keys, s) for s in sl], "thr": f2h(float(threshold)),
           "keys": [list(k) for k in keys], "paths": paths}
    ans = ctx.lean.ask(req)
    if "driver_error" in ans:
        ctx.disagree(f"{tag}:driver", case, None, ans)
        return
    ident = {id(s): i for i, s in enumerate(sl)}
    orig = [_sample_json(keys, s) for s in sl]

    def real_best(smp):
        b = smp.max_log_likelihood_sample
        return None if b is None else b

    # -- weights ---------------------------------------------------------------------------------
    tot = sum(samples.weight_list)
    if not C.tol_close(float(tot), h2f(ans["wsum"]), abs(float(tot))):
        ctx.disagree(f"{tag}:weight-sum", case, float(tot), h2f(ans["wsum"]))
    # -- from_list_info_and_model: the list is handed on as it is -----------------------------------
    again = type(samples).from_list_info_and_model(sample_list=sl, samples_info=samples.samples_info, model=model)
    if [id(s) for s in again.sample_list] != [id(s) for s in sl]:
        ctx.fail(f"C05-{kind}-rebuilt-samples-differ", f"{kind}: from_list_info_and_model does not keep the sample list", case, {})
    # -- threshold ---------------------------------------------------------------------------------
    old_mode = os.environ.pop("PYAUTOFIT_TEST_MODE", None)
    try:
        above = samples.samples_above_weight_threshold_from(weight_threshold=float(threshold))
    finally:
        if old_mode is not None:
            os.environ["PYAUTOFIT_TEST_MODE"] = old_mode
    kept = list(above.sample_list)
    got = [_sample_json(keys, s) for s in kept]
    if [_m_tuple(m) for m in ans["above"]] != [_m_tuple(g) for g in got]:
        ctx.disagree(f"{tag}:above-threshold", case, len(got), len(ans["above"]))
    want = [o for o, w in zip(orig, ws) if w > float(threshold)]
    if got != want:
        ctx.fail(f"C05-{kind}-threshold-pairing", f"{kind}: samples_above_weight_threshold_from does not return exactly the "
                 "samples heavier than the threshold, each with its own values, likelihood, prior and weight", case,
                 {"threshold": threshold, "kept": len(got), "expected": len(want)})
    rb = real_best(above)
    mb = ans["above_best"]
    if (rb is None) != (mb is None) or (rb is not None and _m_tuple(_sample_json(keys, rb)) != _m_tuple(mb)):
        ctx.disagree(f"{tag}:above-best", case, None if rb is None else _sample_json(keys, rb), mb)
    if kept:
        klls = [float(s.log_likelihood) for s in kept]
        if not any(x != x for x in klls) and float(rb.log_likelihood) != max(klls):
            ctx.fail(f"C05-{kind}-threshold-best-not-max", f"{kind}: the best fit of the thresholded samples is not their maximum",
                     case, {"best": float(rb.log_likelihood), "max": max(klls)})
    ctx.hit("xform:threshold-keeps-%s" % ("all" if len(kept) == len(sl) else "none" if not kept else "some"))
    # -- arg-max indices and minimise ------------------------------------------------------------------
    bi = ident[id(samples.max_log_likelihood_sample)]
    if ans["best_index"] != bi:
        ctx.disagree(f"{tag}:best-index", case, bi, ans["best_index"])
    pi = int(samples.max_log_posterior_index)
    if ans["post_index"] != pi:
        ctx.disagree(f"{tag}:posterior-index", case, pi, ans["post_index"])
    mini = samples.minimise()
    got_m = sorted((ident.get(id(s), -1), _m_tuple(_sample_json(keys, s))) for s in mini.sample_list)
    mod_m = sorted((e["i"], _m_tuple(e["s"])) for e in (ans["minimise"] or []))
    if got_m != mod_m:
        ctx.disagree(f"{tag}:minimise", case, [g[0] for g in got_m], [m[0] for m in mod_m])
    if any(i < 0 or _m_tuple(orig[i]) != t for i, t in got_m):
        ctx.fail(f"C05-{kind}-minimise-pairing", f"{kind}: minimise() returns a sample that is not one of the samples", case, {})
    lls = [float(s.log_likelihood) for s in sl]
    if not any(x != x for x in lls):
        mbest = real_best(mini)
        if float(mbest.log_likelihood) != max(lls):
            ctx.fail(f"C05-{kind}-minimise-best-not-max", f"{kind}: the best fit of minimise() is not the maximum over the samples",
                     case, {"best": float(mbest.log_likelihood), "max": max(lls)})
    ctx.hit("xform:minimise-keeps-%d" % len(mini.sample_list))
    # -- with_paths / without_paths --------------------------------------------------------------------
    for name, fn, key_ok in (("with", "with_paths", True), ("without", "without_paths", False)):
        try:
            red = getattr(samples, fn)([tuple(p) for p in paths])
        except Exception as e:
            # reducing the *model* may be impossible for these paths; the samples themselves reduce alone
            ctx.hit(f"xform:{fn}-model-raises:{type(e).__name__}")
            red = SimpleNamespace(sample_list=[getattr(s, fn)([tuple(p) for p in paths]) for s in sl])
            red.max_log_likelihood_sample = None
            red_best = False
        else:
            red_best = True
        got_k = [_tuple_of(keys, s) for s in red.sample_list]
        mod_k = [_k_tuple(m) for m in ans[name]]
        if got_k != mod_k:
            ctx.disagree(f"{tag}:{fn}", case, got_k[:2], mod_k[:2])
        # oracle: same length and order, (ll, lp, w) untouched, kept keys carry the original values
        bad = len(red.sample_list) != len(sl)
        for s0, s1 in zip(sl, red.sample_list):
            if (f2h(float(s0.log_likelihood)), f2h(float(s0.log_prior)), f2h(float(s0.weight))) != (
                    f2h(float(s1.log_likelihood)), f2h(float(s1.log_prior)), f2h(float(s1.weight))):
                bad = True
            for k, v in s1.kwargs.items():
                if k not in s0.kwargs or f2h(float(s0.kwargs[k])) != f2h(float(v)):
                    bad = True
            for k in s0.kwargs:
                m = any(all(a == b for a, b in zip(k, p)) for p in paths)
                if (k in s1.kwargs) != (m if key_ok else not m):
                    bad = True
        if bad:
            ctx.fail(f"C05-{kind}-{fn.replace('_', '-')}-pairing", f"{kind}: {fn} changes the likelihood, prior, weight or a kept "
                     "value of a sample, or keeps the wrong keys", case, {"paths": paths})
        if red_best:
            rb = red.max_log_likelihood_sample
            mb = ans[name + "_best"]
            if (rb is None) != (mb is None) or (rb is not None and tuple(_tuple_of(keys, rb)) != _k_tuple(mb)):
                ctx.disagree(f"{tag}:{fn}-best", case, None if rb is None else _tuple_of(keys, rb), mb)
            if rb is not None and ident.get(id(samples.max_log_likelihood_sample)) is not None:
                if f2h(float(rb.log_likelihood)) != f2h(float(samples.max_log_likelihood_sample.log_likelihood)):
                    ctx.fail(f"C05-{kind}-{fn.replace('_', '-')}-best", f"{kind}: the best fit changes under {fn}", case, {})
        ctx.hit(f"xform:{fn}-keeps-%s" % ("all" if all(len(s.kwargs) == len(keys) for s in red.sample_list) else
                                          "none" if all(not s.kwargs for s in red.sample_list) else "some"))
    # -- summary -----------------------------------------------------------------------------------------
    try:
        summ = samples.summary()
    except Exception as e:
        # SamplesPDF.summary() also computes the median PDF, which has no value for degenerate weights (all zero,
        # NaN): not a matter of this property; the conversions' own summaries are required by `finish_case`
        ctx.hit(f"xform:summary-raises:{type(e).__name__}")
        return
    if summ.max_log_likelihood_sample is not samples.max_log_likelihood_sample:
        ctx.fail(f"C05-{kind}-summary-best", f"{kind}: summary() does not carry the maximum likelihood sample", case, {})


def synth_xform(ctx, prog, model, analysis, arrays=None):
    """sample lists built directly (ties, NaN, infinities among the likelihoods; zero / tiny / equal weights)"""
    import autofit as af

    rng = ctx.rng
    if arrays is None:
        n = rng.randint(1, 9)
        rows = C.tie_some(rng, [C.random_row(rng, model) for _ in range(n)])
        pool = [rng.uniform(-9.0, 3.0) for _ in range(3)]
        special = [float("nan"), float("inf"), float("-inf")]

        def val():
            r = rng.random()
            return rng.choice(special) if r < 0.12 else rng.choice(pool) if r < 0.5 else rng.uniform(-9.0, 3.0)

        arrays = {"rows": rows, "ll": [val() for _ in rows],
                  "lp": [rng.choice([0.0, rng.uniform(-3, 3), val()]) for _ in rows],
                  "w": [rng.choice([0.0, 1e-12, 0.25, rng.random(), 1.0]) for _ in rows],
                  "cls": rng.choice(["Samples", "SamplesPDF"])}
    slist = af.Sample.from_lists(model=model, parameter_lists=[list(r) for r in arrays["rows"]],
                                 log_likelihood_list=list(arrays["ll"]), log_prior_list=list(arrays["lp"]),
                                 weight_list=list(arrays["w"]))
    from autofit.non_linear.samples import Samples, SamplesPDF

    cls = {"Samples": Samples, "SamplesPDF": SamplesPDF}[arrays["cls"]]
    samples = cls.from_list_info_and_model(sample_list=slist, samples_info={"time": None}, model=model)
    case = {"mode": "synth", "kind": "xform", "program": prog, "analysis": analysis.spec(), "arrays": arrays}
    if any(x != x for x in arrays["ll"]):
        ctx.hit("xform:nan-likelihood")
    if len(set(f2h(x) for x in arrays["ll"])) < len(arrays["ll"]):
        ctx.hit("xform:tied-likelihood")
    xform_check(ctx, "xform", case, model, samples, arrays.get("threshold"), arrays.get("paths"))
    ctx.case({"kind": "xform", "arrays": {k: (C.hexrow(v) if k in ("ll", "lp", "w") else v) for k, v in arrays.items()
                                          if k != "rows"}, "rows": [C.hexrow(r) for r in arrays["rows"]],
              "comp": C.X.node_of(model)}, nontrivial=len(slist) >= 2 and model.prior_count >= 2,
             sample={"kind": "xform", "samples": len(slist), "parameters": model.prior_count})
    ctx.hit("synth:xform")
    return 0


# ---------------------------------------------------------------------------------------------
# resumed fits: a fit that died part-way (the likelihood raises after N calls) is run again by a fresh search
# object of the same name; what it returns went partly through the state loaded from disk


class Crash(Exception):
    pass


class CrashingAnalysis(af.Analysis):
    """the likelihood of `inner`; raises after `limit` calls (a job killed part-way)"""

    def __init__(self, inner, limit):
        self.inner = inner
        self.limit = limit
        self.calls = 0
        self.seen = set()

    def log_likelihood_function(self, instance):
        self.calls += 1
        if self.calls > self.limit:
            raise Crash("the job was killed")
        self.seen.add(tuple(v for _, v in C.leaves(instance)))
        return self.inner.log_likelihood_function(instance)


# (in this environment only BFGS / LBFGS carry state over a kill: dynesty writes its checkpoint every 60 s of wall time, and
# an Emcee fit that is updated every few steps stops at `thin = 0`; these cases check that a fit started again after a kill
# returns faithful samples, they add no modelled behaviour - thorough tier only)
RESUME_FITS = [
    ("LBFGS", {"named": True, "history": True, "ipu": 2, "maxiter": 10, "crash_after": 45}),
    ("BFGS", {"named": True, "history": True, "ipu": 2, "maxiter": 8, "crash_after": 15}),
    ("LBFGS", {"named": True, "ipu": 2, "maxiter": 8, "crash_after": 30}),
    ("DynestyStatic", {"named": True, "x1": True, "ipu": 40, "crash_after": 130}),
]


def crash_then_resume(ctx, kind, search, model, analysis, settings):
    """-> (result, the search object that produced it)"""
    fresh = copy.deepcopy(search)  # taken before any fit: the script is started again
    crashing = CrashingAnalysis(analysis, int(settings["crash_after"]))
    try:
        result = search.fit(model=model, analysis=crashing)
    except Crash:
        ctx.hit(f"resume:{kind}:first-fit-killed")
    else:
        ctx.hit(f"resume:{kind}:first-fit-ended-before-the-kill")
        return result, search
    counting = CrashingAnalysis(analysis, 10 ** 12)
    result = fresh.fit(model=model, analysis=counting)
    keys = [tuple(p) for p in model.unique_prior_paths]
    old = 0
    for smp in result.samples.sample_list:
        try:
            inst = model.instance_from_vector([float(smp.kwargs[k]) for k in keys], ignore_prior_limits=True)
            old += tuple(v for _, v in C.leaves(inst)) in crashing.seen
        except Exception:
            pass
    # evidence that state from before the kill is in the result (the pairing of those samples is what is checked)
    ctx.hit(f"resume:{kind}:samples-evaluated-before-the-kill:{'none' if old == 0 else 'some'}")
    return result, fresh


def run_more(ctx):
    """the cases of this module (called from c05.run after the conversion loop)"""
    rng = ctx.rng
    n = ctx.n(120, 800)
    kinds = list(KINDS) + ["xform"]
    for k in range(n):
        kind = kinds[k % len(kinds)]
        prog, model = C.gen_model(ctx)
        quant = rng.choice([0.5, 1.0, 2.0]) if rng.random() < 0.35 else 0.0
        analysis = C.make_analysis(rng, model, quant=quant)
        C.guarded(ctx, kind, prog, analysis, lambda: C.SYNTH[kind](ctx, prog, model, analysis))
