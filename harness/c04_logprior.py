"""C04, log-prior part: `model.log_prior_list_from_vector(vector)` term by term.

The model computes the terms itself (AFModel/LogPrior.lean: `logPriorList`): parameter order from the composition
tree, one expression per prior family. Compared here with the real list for vectors of the case: length, order,
every term (bit-exact for the families that only use + - * /, i.e. uniform and log-uniform; 2 ulp for `** 2.0`; a
stated tolerance where `np.log` enters) and the plain left-fold sum. The oracle re-states "the model's log-prior terms
in parameter order" on the real code alone: the k-th term is `log_prior_from_value` of the prior found at the k-th
advertised path (`model.paths`, first place of each prior), applied to the k-th entry."""
import math

from common import f2h, h2f, close


def prior_table(comp):
    """what `log_prior_from_value` reads, per prior id, collected by walking the wire tree (walk order, not id order)"""
    seen, out = set(), []

    def walk(x):
        if isinstance(x, dict):
            if x.get("k") == "prior":
                if x["id"] not in seen:
                    seen.add(x["id"])
                    out.append({k: x[k] for k in ("id", "kind", "mean", "sigma") if k in x})
                return
            for v in x.values():
                walk(v)
        elif isinstance(x, (list, tuple)):
            for v in x:
                walk(v)

    walk(comp)
    # descending id: any order but the parameter order
    return sorted(out, key=lambda d: -d["id"])


def _tol_ok(kind, a, b, prior, x):
    if a != a and b != b:
        return True
    if kind in ("Uniform", "LogUniform"):
        return f2h(a) == f2h(b)
    if kind == "Gaussian":
        return close(a, b, ulps=2)
    if close(a, b, ulps=8):
        return True
    try:
        lx = abs(math.log(x))
        s = (lx + abs(float(prior.mean))) ** 2 / (2 * float(prior.sigma) ** 2) + lx
        return abs(a - b) <= 1e-14 * s
    except Exception:
        return False


def advertised_priors(model):
    out, seen = [], set()
    for path in model.paths:
        p = model.object_for_path(path)
        if p.id not in seen:
            seen.add(p.id)
            out.append(p)
    return out


def logprior_clause(ctx, model, comp, vectors, case):
    import extract_comp as X
    n = model.prior_count
    vs = [list(map(float, v)) for v in vectors if len(v) == n][:3]
    if not vs or n == 0:
        return
    # a shorter vector: Python's map stops at the shorter argument
    import random
    rng = random.Random(f"C04-logprior-{ctx.seed}-{ctx.evaluations}")   # derived from the run's seed; leaves the main stream as it was
    if n >= 2 and rng.random() < 0.3:
        vs.append(vs[0][: rng.randint(1, n - 1)])
    real = []
    for v in vs:
        try:
            real.append([float(t) for t in model.log_prior_list_from_vector(vector=list(v))])
        except ZeroDivisionError:
            real.append(None)   # 1.0 / 0.0 with a Python float (numpy gives inf): not compared
            ctx.hit("logprior:zero-division")
    ans = ctx.lean.ask({"p": "C04", "kind": "logprior", "comp": comp, "prior_table": prior_table(comp),
                        "vectors": [[f2h(x) for x in v] for v in vs]})
    case = case | {"clause_vectors": vs}
    if "driver_error" in ans:
        ctx.disagree("driver", case, None, ans)
        return
    ctx.evaluations += 1
    ordered = list(model.priors_ordered_by_id)
    if [int(p.id) for p in ordered] != ans["order"]:
        ctx.disagree("C04.logprior-order", case, [int(p.id) for p in ordered], ans["order"])
        return
    adv = advertised_priors(model)
    for v, r, mt, ms in zip(vs, real, ans["terms"], ans["sums"]):
        if r is None:
            continue
        m = [h2f(t) for t in mt]
        kinds = [X.KIND.get(type(p).__name__, type(p).__name__) for p in ordered]
        if len(m) != len(r):
            ctx.disagree("C04.logprior-length", case | {"v": v}, len(r), len(m))
            continue
        bad = [k for k in range(len(r)) if not _tol_ok(kinds[k], r[k], m[k], ordered[k], v[k])]
        if bad:
            ctx.disagree("C04.logprior-term", case | {"v": v, "k": bad[0], "kind": kinds[bad[0]]}, repr(r[bad[0]]), repr(m[bad[0]]))
        for kd in set(kinds[: len(r)]):
            ctx.hit("logprior-term:" + kd)
        # plain left fold of the model's own terms (no compensation): the driver's sum is that fold
        acc = 0.0
        for t in m:
            acc = acc + t
        if f2h(acc) != ms and not (acc != acc and ms == "nan"):
            ctx.disagree("C04.logprior-sum", case | {"v": v}, f2h(acc), ms)
        # ---- oracle: the k-th term belongs to the k-th advertised parameter
        for k in range(len(r)):
            if k >= len(adv):
                ctx.fail("C04-prior-term-order", "more log-prior terms than advertised parameters", case | {"v": v}, {"terms": len(r), "paths": len(adv)})
                break
            try:
                want = float(adv[k].log_prior_from_value(v[k]))
            except ZeroDivisionError:
                continue
            if f2h(want) != f2h(r[k]):
                ctx.fail("C04-prior-term-order", "a log-prior term is not that of the parameter advertised at its position, applied to the entry at that position",
                         case | {"v": v, "k": k}, {"got": r[k], "want": want})
                break
        if len(r) != min(len(v), len(adv)):
            ctx.fail("C04-prior-term-order", "the list of log-prior terms does not have one term per (given) parameter", case | {"v": v},
                     {"terms": len(r), "parameters": len(adv), "given": len(v)})
