"""C07 — the fit identifier is a stable, sensitive function of what is fitted.

correspondence: Identifier(x).hash_list of the real code vs Lean `tokens` of a dumb reflection of x,
for models (C01/C03 programs), every search class, and [search, model, tag];
oracle: equal constructions -> equal identifiers, single-field perturbations -> different identifiers,
same identifier in other processes (PYTHONHASHSEED varied), after reload from dict/JSON."""
import copy
import inspect
import json
import os
import pickle
import subprocess
import sys

import numpy as np

from common import f2h, h2f, VERIF, REPO
import gen_comp
import extract_comp as X
import c03
import c07_comp

import autofit as af
from autofit.mapper.identifier import Identifier
from autofit.mapper.model_object import ModelObject
from autofit.mapper.prior.abstract import Prior
from autofit.mapper.prior_model.abstract import AbstractPriorModel
from autoconf.class_path import get_class_path

RULE = (
    "C03 programs (models with shared priors, constants, tuples, arithmetic, arrays, assertions) x 11 search classes "
    "with random identifying / non-identifying settings x tags; per case: token-list correspondence, rebuild with "
    "shifted ids, deepcopy, pickle, labels, dict/JSON reload, single-field perturbations (each prior parameter, fixed "
    "values +-2e-8 / +-1e-9, class swap, sharing on/off, identifying search field, tag); non-trivial = >=2 parameters "
    "or a search with >=1 identifying field"
)

SEARCHES = ["DynestyStatic", "DynestyDynamic", "Emcee", "Zeus", "PySwarmsGlobal", "PySwarmsLocal", "LBFGS", "BFGS",
            "Drawer", "Nautilus", "UltraNest"]
NON_IDENTIFYING = ["iterations_per_update", "number_of_cores"]


# ---------------------------------------------------------------------------------------------
# dumb reflection


def private(k):
    return k.startswith("_") or k in ("id", "paths")


def pyval(x, depth=0):
    if depth > 14:
        return {"t": "none"}
    if isinstance(x, property):
        return {"t": "none"}
    if inspect.isclass(x):
        return {"t": "cls", "path": get_class_path(x)}
    if hasattr(x, "__dict__") and not inspect.isfunction(x) and not inspect.ismodule(x):
        d = {"t": "obj", "cls": x.__class__.__name__, "mo": isinstance(x, ModelObject)}
        if hasattr(x, "__identifier_fields__"):
            d["idf"] = [[str(k), pyval(getattr(x, k), depth + 1)] for k in x.__identifier_fields__]
        else:
            try:
                d["ctor"] = list(inspect.getfullargspec(x.__class__).args)
            except TypeError:
                d["ctor"] = []
            if hasattr(x, "__exclude_identifier_fields__"):
                d["excl"] = list(x.__exclude_identifier_fields__)
            d["dict"] = [[str(k), {"t": "none"} if private(str(k)) else pyval(v, depth + 1)] for k, v in x.__dict__.items()]
        return d
    if isinstance(x, dict):
        return {"t": "dict", "items": [[str(k), {"t": "none"} if private(str(k)) else pyval(v, depth + 1)] for k, v in x.items()]}
    if isinstance(x, float):
        return {"t": "float", "v": f2h(x)}
    if isinstance(x, bool):
        return {"t": "bool", "v": bool(x)}
    if isinstance(x, str):
        return {"t": "str", "v": x}
    if isinstance(x, int):
        return {"t": "int", "v": int(x)}
    if x is None:
        return {"t": "none"}
    try:
        it = iter(x)
    except TypeError:
        return {"t": "none"}
    return {"t": "iter", "items": [pyval(v, depth + 1) for v in it]}


def tokens_equal(impl, model):
    """token lists equal; model float tokens F:<bits> are compared with float(impl token)"""
    if len(impl) != len(model):
        return False
    for a, b in zip(impl, model):
        if b.startswith("F:"):
            try:
                if f2h(float(a)) != b[2:]:
                    return False
            except ValueError:
                return False
        elif a != b:
            return False
    return True


# ---------------------------------------------------------------------------------------------
# searches


def gen_search_spec(rng):
    name = rng.choice(SEARCHES)
    cls = getattr(af, name)
    base = cls()
    kw = {}
    for f in cls.__identifier_fields__:
        if rng.random() < 0.5:
            continue
        d = getattr(base, f)
        if isinstance(d, bool):
            kw[f] = not d
        elif isinstance(d, int):
            kw[f] = d + rng.randint(1, 40)
        elif isinstance(d, float):
            kw[f] = d * rng.choice([0.5, 1.5, 2.0]) + rng.choice([0.0, 0.125])
        elif isinstance(d, str):
            kw[f] = d + rng.choice(["", "x", "_alt"])
    extra = {}
    if rng.random() < 0.5:
        extra["iterations_per_update"] = rng.randint(100, 5000)
    if rng.random() < 0.3:
        extra["name"] = rng.choice(["fit", "run_a"])
    if rng.random() < 0.3:
        extra["path_prefix"] = rng.choice(["pre", "a/b"])
    return {"cls": name, "kw": kw, "extra": extra}


def mk_search(spec):
    return getattr(af, spec["cls"])(**spec["kw"], **spec["extra"])


def ident(x):
    return str(Identifier(x))


def fit_id(search, model, tag):
    lst = [search, model]
    if tag is not None:
        lst.append(tag)
    return str(Identifier(lst))


# ---------------------------------------------------------------------------------------------
# perturbations of programs


def perturb_programs(rng, prog):
    """single-field perturbations: (label, new program, expect_different, handle perturbed)"""
    out = []
    idx_prior = [i for i, s in enumerate(prog) if s["op"] == "prior"]
    for i in rng.sample(idx_prior, k=min(2, len(idx_prior))):
        s = prog[i]
        for j in range(len(s["args"])):
            q = copy.deepcopy(prog)
            delta = abs(s["args"][j]) * 0.01 + 1e-4
            q[i]["args"][j] = s["args"][j] + (delta if j != 0 or s["kind"] not in ("U", "LU") else -delta if s["kind"] == "U" else delta * 0.01)
            if s["kind"] == "LU" and j == 0:
                q[i]["args"][0] = s["args"][0] * 0.99
            out.append((f"prior-param-{s['kind']}-{j}", q, True, s["h"]))
        kinds = {"U": "LU", "LU": "U", "G": "LG", "LG": "G"}
        q = copy.deepcopy(prog)
        if s["kind"] in ("G", "LG") or (s["kind"] == "U" and s["args"][0] > 0) or s["kind"] == "LU":
            q[i]["kind"] = kinds[s["kind"]]
            out.append(("prior-type", q, True, s["h"]))
    # fixed values
    for i, s in enumerate(prog):
        if s["op"] == "model":
            for a, v in s["kw"].items():
                if isinstance(v, float):
                    for d, lab in ((2e-8, "const+2e-8"), (-3e-8, "const-3e-8"), (1e-3, "const+1e-3")):
                        q = copy.deepcopy(prog)
                        q[i]["kw"][a] = v + d
                        if qclass(v + d) != qclass(v):
                            out.append((lab, q, True, s["h"]))
                    q = copy.deepcopy(prog)
                    q[i]["kw"][a] = v + 1e-10
                    if qclass(v + 1e-10) == qclass(v):
                        out.append(("const+1e-10", q, False, s["h"]))
                    break
    # a value inside a component fixed to an instance (also inside a passed-on ModelInstance)
    def fixed_objs(x, path=()):
        if isinstance(x, dict) and "obj" in x:
            yield x
            for v_ in x["kw"].values():
                yield from fixed_objs(v_)
        elif isinstance(x, dict):
            for v_ in x.values():
                yield from fixed_objs(v_)
        elif isinstance(x, list):
            for v_ in x:
                yield from fixed_objs(v_)

    for i, s in enumerate(prog):
        if s["op"] in ("coll_list", "coll_dict", "coll_kw", "append"):
            q = copy.deepcopy(prog)
            objs = [o for o in fixed_objs(q[i]) if any(isinstance(v_, float) for v_ in o["kw"].values())]
            if objs:
                o = objs[-1]
                a = next(k_ for k_, v_ in o["kw"].items() if isinstance(v_, float))
                o["kw"][a] = o["kw"][a] + 1e-3
                out.insert(0, ("fixed-instance-value+1e-3", q, True, s["h"]))
                break
    # class swap
    swap = {"P2": "P2b", "P1": "P1b"}
    for i, s in enumerate(prog):
        if s["op"] == "model" and s["cls"] in swap:
            q = copy.deepcopy(prog)
            q[i]["cls"] = swap[s["cls"]]
            out.append(("class-swap", q, True, s["h"]))
            break
    return out[:10]


def qclass(v):
    try:
        return 1e-8 * round(v / 1e-8)
    except OverflowError:
        return v


def unshare_program(rng, prog):
    """replace one use of a prior that is used at >= 2 places by a fresh equal prior"""
    uses = {}
    for i, s in enumerate(prog):
        if s["op"] == "model":
            for a, v in s["kw"].items():
                if isinstance(v, dict) and v["h"].startswith("p"):
                    uses.setdefault(v["h"], []).append((i, a))
    shared = [h for h, u in uses.items() if len(u) >= 2]
    if not shared:
        return None
    h = rng.choice(shared)
    i, a = uses[h][-1]
    src = next(s for s in prog if s["op"] == "prior" and s["h"] == h)
    q = copy.deepcopy(prog)
    q.insert(0, dict(src, h=h + "_copy"))
    q[i + 1]["kw"][a] = {"h": h + "_copy"}
    return q


# ---------------------------------------------------------------------------------------------


def correspond(ctx, what, obj, case):
    impl = Identifier(obj).hash_list
    ans = ctx.lean.ask({"p": "C07", "val": pyval(obj)})
    if "driver_error" in ans:
        ctx.disagree("driver", case, None, ans)
        return
    if not tokens_equal(impl, ans["tokens"]):
        k = next((j for j, (a, b) in enumerate(zip(impl, ans["tokens"])) if not tokens_equal([a], [b])), min(len(impl), len(ans["tokens"])))
        ctx.disagree(f"C07.tokens.{what}", case, {"at": k, "impl": impl[max(0, k - 3):k + 3], "len": len(impl)},
                     {"model": ans["tokens"][max(0, k - 3):k + 3], "len": len(ans["tokens"])})


def build(prog):
    return gen_comp.run_program(prog)["root"]


def in_tree(H, h):
    """is the object behind handle h part of the root model?"""
    root, o = H["root"], H[h]
    if isinstance(o, Prior):
        return o.id in {p.id for p in root.priors}
    return any(m is o for m in c03.reachable_models(root))


def one_case(ctx, prog, sspec=None, tag="__none__", label="gen"):
    rng = ctx.rng
    try:
        H0 = gen_comp.run_program(prog)
        model = H0["root"]
    except Exception as e:
        ctx.hit("program-rejected:" + type(e).__name__)
        return
    sspec = sspec or gen_search_spec(rng)
    if tag == "__none__":
        tag = rng.choice([None, None, "tag_a", "v2", ""])
    search = mk_search(sspec)
    case = {"program": prog, "search": sspec, "tag": tag, "label": label}
    n_params = model.prior_count
    ctx.case({"m": Identifier(model).hash_list, "s": sspec, "t": tag}, nontrivial=n_params >= 2 or bool(sspec["kw"]),
             sample={"program": gen_comp.program_text(prog)[-400:], "search": sspec, "tag": tag, "identifier": fit_id(search, model, tag)})
    ctx.hit("search:" + sspec["cls"])

    # ---- correspondence
    correspond(ctx, "model", model, case)
    correspond(ctx, "search", search, case)
    correspond(ctx, "fit", [search, model] + ([tag] if tag is not None else []), case)
    c07_comp.correspond_comp(ctx, model, search, tag, case, pyval, tokens_equal)  # composition route (IdentComp.lean)
    c07_comp.correspond_search(ctx, search, case, pyval, tokens_equal)  # generated table of identifying settings

    base = fit_id(search, model, tag)

    # ---- equal constructions
    def same(labelx, other_model, other_search=None, classifier=None):
        got = fit_id(other_search or search, other_model, tag)
        ctx.hit("equal:" + labelx)
        if got != base:
            ctx.fail(classifier or f"C07-unstable-{labelx}", f"identifier changed under an equal construction ({labelx})", case,
                     {"base": base, "other": got, "first_diff": first_diff(Identifier(model).hash_list, Identifier(other_model).hash_list)})

    for _ in range(rng.randint(1, 30)):
        af.UniformPrior()  # shift ids
    m2 = build(prog)
    same("rebuild-shifted-ids", m2)
    same("deepcopy", copy.deepcopy(model))
    same("pickle", pickle.loads(pickle.dumps(model)))
    m3 = build(prog)
    for p in m3.priors:
        p.label = "lbl"
    m3.label = "something"
    same("labels", m3)
    s2 = mk_search(dict(sspec, extra=dict(sspec["extra"], iterations_per_update=123, **({} if sspec["cls"] == "Drawer" else {"number_of_cores": 1}))))
    same("non-identifying-search-settings", model, s2)
    # reload from the dictionary / JSON form the fit writes
    comp = X.node_of(model)
    has_arith = has_kind(comp, ("arith",))  # (binary relations: operand names change on reload - known finding; unary ones are stable)
    has_array = has_kind(comp, ("array",))
    has_fixed_component = any(isinstance(m, af.Model) and m.prior_count == 0 for m in c03.reachable_models(model))
    import c08
    reload_cls = ("C07-reload-modelinstance-member" if c08.holds_model_instance(model) else
                  "C07-reload-arith-names" if has_arith else "C07-reload-fixed-component" if has_fixed_component else
                  "C07-reload-array-dropped" if has_array else "C07-unstable-reload-json")
    try:
        d = json.loads(json.dumps(model.dict()))
        m4 = af.AbstractPriorModel.from_dict(d)
        same("reload-json", m4, classifier=reload_cls)
    except Exception as e:
        ctx.hit("reload-raised:" + type(e).__name__)
    try:
        from autoconf.dictable import to_dict, from_dict

        s4 = from_dict(json.loads(json.dumps(to_dict(search))))
        same("reload-search-json", model, s4, classifier="C07-reload-search-" + sspec["cls"])
    except Exception as e:
        ctx.fail("C07-search-json-" + sspec["cls"], f"search.json of {sspec['cls']} cannot be read back", case, f"{type(e).__name__}: {e}"[:200])

    # ---- perturbations
    def differs(labelx, other_model=None, other_search=None, other_tag="__same__", expect=True, classifier=None):
        t = tag if other_tag == "__same__" else other_tag
        got = fit_id(other_search or search, other_model if other_model is not None else model, t)
        ctx.hit(("differs:" if expect else "same:") + labelx.split("-")[0])
        if (got != base) != expect:
            ctx.fail(classifier or ("C07-insensitive-" + labelx if expect else "C07-oversensitive-" + labelx),
                     f"identifier {'unchanged' if expect else 'changed'} under perturbation {labelx}", case,
                     {"base": base, "other": got})

    for lab, q, expect, h in perturb_programs(rng, prog):
        if not in_tree(H0, h):
            continue
        try:
            mq = build(q)
        except Exception:
            continue
        differs(lab, other_model=mq, expect=expect)
    uq = unshare_program(rng, prog)
    if uq is not None:
        try:
            mu = build(uq)
            if mu.prior_count != model.prior_count:
                differs("sharing-pattern", other_model=mu, classifier="C07-sharing-blind")
        except Exception:
            pass
    differs("tag", other_tag=(tag or "") + "_other")
    cls = getattr(af, sspec["cls"])
    if cls.__identifier_fields__:
        f = rng.choice(list(cls.__identifier_fields__))
        dflt = getattr(search, f)
        new = None
        if isinstance(dflt, bool):
            new = not dflt
        elif isinstance(dflt, int):
            new = dflt + 1
        elif isinstance(dflt, float):
            new = dflt + 0.25
        elif isinstance(dflt, str):
            new = dflt + "_z"
        if new is not None:
            s3 = mk_search({"cls": sspec["cls"], "kw": dict(sspec["kw"], **{f: new}), "extra": sspec["extra"]})
            differs("search-field-" + f, other_search=s3)
    others = [c for c in SEARCHES if c != sspec["cls"]]
    differs("search-class", other_search=getattr(af, rng.choice(others))())


def has_kind(node, kinds):
    if isinstance(node, dict):
        if node.get("k") in kinds:
            return True
        return any(has_kind(v, kinds) for v in node.values())
    if isinstance(node, list):
        return any(has_kind(v, kinds) for v in node)
    return False


def first_diff(a, b):
    for k, (x, y) in enumerate(zip(a, b)):
        if x != y:
            return {"at": k, "a": a[max(0, k - 2):k + 2], "b": b[max(0, k - 2):k + 2]}
    return {"len_a": len(a), "len_b": len(b)}


def hook_identifiers():
    """identifiers of objects that use the exclusion hook (`__exclude_identifier_fields__`): the grid-search wrapper of a
    search and a user class; the same in every process, blind to the excluded field only"""
    import vlib
    out = {}
    for k, steps in (("grid4", 4), ("grid7", 7)):
        out[k] = ident(af.SearchGridSearch(search=af.DynestyStatic(nlive=53), number_of_steps=steps, number_of_cores=1))
    out["grid4-cores"] = ident(af.SearchGridSearch(search=af.DynestyStatic(nlive=53), number_of_steps=4, number_of_cores=3))
    out["excl"] = ident(vlib.Excl())
    out["excl-skip"] = ident(vlib.Excl(skip=9.0))
    out["excl-eta"] = ident(vlib.Excl(eta=9.0))
    out["excl-model"] = ident(af.Collection(e=vlib.Excl(alpha=2.5), g=af.Model(vlib.P2)))
    return out


def hook_probe(ctx, remote=None, seed=None):
    here = hook_identifiers()
    case = {"label": "exclusion-hook"}
    ctx.hit("exclusion-hook-probe")
    if remote is not None:
        if here != remote:
            ctx.fail("C07-process-dependent", "identifier of an object using __exclude_identifier_fields__ (grid search wrapper / user class) "
                     "differs between processes", case, {"here": here, "there": remote, "hashseed": seed})
        return
    if here["grid4"] != here["grid4-cores"] or here["excl"] != here["excl-skip"]:
        ctx.fail("C07-excluded-field-identifies", "a field de-selected by __exclude_identifier_fields__ changes the identifier", case, here)
    if here["grid4"] == here["grid7"] or here["excl"] == here["excl-eta"]:
        ctx.fail("C07-blind", "an identifying field of an object using __exclude_identifier_fields__ does not change the identifier", case, here)


CHILD = r"""
import sys, json, warnings
warnings.filterwarnings("ignore")
sys.path.insert(0, {harness!r}); sys.path.insert(0, {repo!r})
import common; common.setup_repo()
import gen_comp, c07
import autofit as af
spec = json.loads(sys.stdin.read())
out = []
for c in spec:
    for _ in range(c["shift"]):
        af.UniformPrior()
    m = gen_comp.run_program(c["program"])["root"]
    s = c07.mk_search(c["search"])
    out.append(c07.fit_id(s, m, c["tag"]))
print("RESULT" + json.dumps(out))
print("HOOKS" + json.dumps(c07.hook_identifiers()))
"""


def cross_process(ctx, cases):
    """the same programs in fresh processes with different hash seeds and id offsets"""
    here = str(VERIF / "harness")
    code = CHILD.format(harness=here, repo=str(REPO))
    local = []
    for c in cases:
        m = build(c["program"])
        local.append(fit_id(mk_search(c["search"]), m, c["tag"]))
    for seed in ("1", "271828"):
        env = dict(os.environ, PYTHONHASHSEED=seed)
        spec = [dict(c, shift=int(seed) % 17 + 3) for c in cases]
        p = subprocess.run([sys.executable, "-c", code], input=json.dumps(spec), capture_output=True, text=True, env=env, timeout=300)
        line = next((l for l in p.stdout.splitlines() if l.startswith("RESULT")), None)
        if line is None:
            ctx.notes["cross_process_error"] = (p.stderr or "")[-400:]
            return
        remote = json.loads(line[6:])
        hooks = next((l for l in p.stdout.splitlines() if l.startswith("HOOKS")), None)
        if hooks is not None:
            hook_probe(ctx, json.loads(hooks[5:]), seed)
        ctx.hit("cross-process-compared", len(remote))
        for c, a, b in zip(cases, local, remote):
            if a != b:
                ctx.fail("C07-process-dependent", "identifier differs between processes", c, {"here": a, "there": b, "hashseed": seed})


def run(ctx):
    ctx.rule = RULE
    ctx.assumptions = [
        "md5 is collision free on the inputs met (identifiers are compared as pre-image token lists on the model side)",
        "float tokens are compared through float(token) (Python repr round-trips)",
    ]
    for f in sorted((VERIF / "corpus" / "C07").glob("*.json")):
        c = json.loads(f.read_text())
        one_case(ctx, c["program"], c.get("search"), c.get("tag", None), label=f.name)
    kept = []
    for _ in range(ctx.n(110, 1800)):
        prog = gen_comp.gen_program(ctx.rng, allow_pow=False)
        prog = c03.add_assertions(ctx.rng, prog, n_max=2)
        sspec = gen_search_spec(ctx.rng)
        tag = ctx.rng.choice([None, None, "tag_a", "v2"])
        one_case(ctx, prog, sspec, tag)
        if len(kept) < ctx.n(12, 60):
            kept.append({"program": prog, "search": sspec, "tag": tag})
    hook_probe(ctx)
    cross_process(ctx, kept)
    caller_names(ctx)
    pinned_search_fields(ctx)
    same_named_classes(ctx)
    folder_identity(ctx)
    c07_comp.join_collisions(ctx, mk_search)  # the join (IdentJoin.lean): pairs of different fits


class _FlatAnalysis(af.Analysis):
    def log_likelihood_function(self, instance):
        return -1.0


def folder_identity(ctx):
    """a fit is read back from its own folder (search.json, model.json, unique tag) under the identifier it was
    written under - without and with a unique tag"""
    import contextlib
    import io
    from pathlib import Path
    import vlib
    from autofit.aggregator.search_output import SearchOutput

    written = {}
    for tag in (None, "tag_a", ""):
        case = {"label": "folder-identity", "tag": tag}
        try:
            with contextlib.redirect_stdout(io.StringIO()):
                search = af.Drawer(name="c07_folder", unique_tag=tag, total_draws=2)
                search.fit(model=af.Collection(g=af.Model(vlib.P2), k=af.UniformPrior(0.0, 1.0)), analysis=_FlatAnalysis())
                d = Path(search.paths.output_path)
                if not (d / "files" / "model.json").exists():
                    search.paths.restore()
                read_back = SearchOutput(d).id
        except Exception as e:  # noqa
            ctx.disagree("C07.folder-identity-raises", case, f"{type(e).__name__}: {str(e)[:200]}", "an identifier")
            continue
        ctx.hit("folder-identity:" + ("tagged" if tag else "untagged" if tag is None else "empty-tag"))
        written[tag] = search.paths.identifier
        if read_back != search.paths.identifier:
            ctx.fail("C07-folder-id-differs", "a fit read back from its own folder reports another identifier than the one it was written under",
                     case, {"written": search.paths.identifier, "read_back": read_back})
    if len(written) == 3 and len(set(written.values())) != 3:
        ctx.fail("C07-insensitive-unique-tag", "fits that differ only in their unique tag (none / empty / non-empty) share an identifier",
                 {"label": "folder-identity", "tag": "all"}, {k if k is not None else "None": v for k, v in written.items()})


def _unused():
    pass


class _Sersic:  # renamed below: two different user classes called `Sersic` (a light and a mass profile)
    def __init__(self, centre=0.0, intensity=1.0):
        self.centre = centre
        self.intensity = intensity


class _SersicMass:
    def __init__(self, centre=0.0, radius=1.0, ratio=3.0):
        self.centre = centre
        self.radius = radius
        self.ratio = ratio


_Sersic.__name__ = _Sersic.__qualname__ = "Sersic"
_SersicMass.__name__ = _SersicMass.__qualname__ = "Sersic"


def same_named_classes(ctx):
    """what identifies a fixed component is its own class and values, also when another class of the same
    name was identified earlier in the process"""
    for first, second, changed in ((_Sersic, _SersicMass, {"ratio": 4.5}), (_SersicMass, _Sersic, {"intensity": 2.5})):
        ident(af.Collection(light=first(), z=af.UniformPrior(0.0, 1.0)))
        a = ident(af.Collection(mass=second(), z=af.UniformPrior(0.0, 1.0)))
        b = ident(af.Collection(mass=second(**changed), z=af.UniformPrior(0.0, 1.0)))
        ctx.hit("same-named-classes")
        if a == b:
            ctx.fail("C07-insensitive-fixed-value", "a fixed value of a component does not change the identifier when a different class "
                     "of the same name was identified before", {"label": "same-named-classes", "first": first.__init__.__code__.co_varnames[1:],
                                                               "second": second.__init__.__code__.co_varnames[1:], "changed": changed})


def pinned_search_fields(ctx):
    """every setting that identified a search at the pinned commit (harness/c07_identifying_fields.json,
    a committed snapshot, independent of the class attribute the code reads) must still change the identifier"""
    pinned = json.loads((VERIF / "harness" / "c07_identifying_fields.json").read_text())
    for name, fields in pinned.items():
        cls = getattr(af, name)
        base = cls()
        for f in fields:
            d = getattr(base, f, None)
            if isinstance(d, bool):
                new = not d
            elif isinstance(d, int):
                new = d + 3
            elif isinstance(d, float):
                new = d + 0.375
            elif isinstance(d, str):
                new = d + "_q"
            else:
                continue
            try:
                other = cls(**{f: new})
            except Exception as e:
                ctx.hit("pinned-field-unsettable")
                continue
            ctx.hit("pinned-field-compared")
            if ident(other) == ident(base):
                ctx.fail("C07-insensitive-search-field", f"{name}: changing the identifying setting {f} no longer changes the identifier",
                         {"search": name, "field": f, "value": repr(new)}, {"identifier": ident(base)})


def caller_names(ctx):
    """identifier must not depend on the names of the caller's variables"""
    def build_a():
        alpha = af.UniformPrior(0.0, 1.0)
        beta = af.UniformPrior(0.0, 2.0)
        return af.Model(__import__("vlib").P3, a=alpha, b=beta, c=alpha + beta)

    def build_b():
        x = af.UniformPrior(0.0, 1.0)
        y = af.UniformPrior(0.0, 2.0)
        return af.Model(__import__("vlib").P3, a=x, b=y, c=x + y)

    a, b = ident(build_a()), ident(build_b())
    ctx.hit("caller-names-compared")
    if a != b:
        ctx.fail("C07-arith-caller-names", "identifier of a model with an arithmetic prior depends on the caller's variable names",
                 {"program": "P3(a=alpha, b=beta, c=alpha+beta) vs P3(a=x, b=y, c=x+y)"}, {"a": a, "b": b})


def replay(ctx, payload):
    case = payload.get("case") or payload.get("disagreements", [{}])[0].get("case")
    if case.get("label") == "exclusion-hook":
        hook_probe(ctx)
        return cross_process(ctx, [])
    if isinstance(case.get("program"), list):
        one_case(ctx, case["program"], case.get("search"), case.get("tag"), label="replay")
    elif case.get("label") == "same-named-classes":
        same_named_classes(ctx)
    elif case.get("label") == "folder-identity":
        folder_identity(ctx)
    elif str(case.get("label", "")).startswith("pair:") or case.get("label") == "collision":
        c07_comp.join_collisions(ctx, mk_search)
    else:
        caller_names(ctx)
