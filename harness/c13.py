"""C13 — model answers depend only on the current composition (no history effects).

Random operation sequences (query / freeze / unfreeze / modify / failing call / prior passing) over
several live models (two programs, a frozen deep copy, optionally a component shared by two
parents), executed on the real objects; after every query the real answer is compared with (a) the
answer of a fresh uncached rebuild (oracle) and (b) the version the Lean model `fstep` says the
answer is computed from."""
import contextlib
import copy
import io
import json

from common import VERIF
import gen_comp
import c01

import autofit as af
from autofit.mapper.model import AbstractModel
from autofit.mapper.prior_model.abstract import AbstractPriorModel
from autofit.mapper.prior.abstract import Prior
from autofit.mapper.prior_model.prior_model import Model
from autofit.mapper.prior_model.collection import Collection
from autofit.mapper.prior.arithmetic.compound import CompoundPrior, ModifiedPrior

RULE = (
    "2 generated models + a deep copy taken while frozen (+ a component shared by two parents in 30% of cases); "
    "15-40 operations drawn from query/freeze/unfreeze/modify/failing/pass on random nodes (root or nested); "
    "non-trivial = the sequence contains a freeze, a later modification attempt and a later query on an ancestor"
)


PASS_KEY = 1000000  # the key under which prior passing reads the parameter order


class Flaky(dict):
    """a dict attribute whose walk raises on demand (a failing call that is not the library's fault)"""
    bad = False

    def items(self):
        if Flaky.bad:
            raise RuntimeError("scripted failure")
        return super().items()


def children(node):
    # (prior models only: a passed-on ModelInstance is an AbstractModel too, but holds no parameters and answers no queries)
    return [v for k, v in node.__dict__.items() if k != "id" and not k.startswith("_") and isinstance(v, AbstractPriorModel) and v is not node]


def reach(node):
    out, seen, stack = [], set(), [node]
    while stack:
        n = stack.pop()
        if id(n) in seen:
            continue
        seen.add(id(n))
        out.append(n)
        stack.extend(children(n))
    return out


def fresh_answer(node, variant=0):
    """answers of an uncached, unfrozen rebuild of the same composition"""
    convertible = not any(getattr(n, "_is_frozen", False) for n in reach(node))  # asked of the real node or not
    c = copy.deepcopy(node)
    c.unfreeze()
    return answer(c, variant, convertible)


def answer(node, variant=0, convertible=None):
    base = (node.prior_count, tuple(tuple(map(str, p)) for p in node.paths), len(node.unique_prior_tuples))
    if not variant:
        return base
    if convertible is None:
        convertible = not any(getattr(n, "_is_frozen", False) for n in reach(node))
    return base + (type_answers(node, variant, convertible),)


def type_answers(node, variant, convertible=True):
    """the type queries of a model (models_with_type / has / has_model / has_instance / is_only_model /
    attribute_tuples_with_type) with both values of their keyword arguments; `variant` fixes the order
    in which they are asked (on a frozen model the order must not matter), the answers are returned
    in one canonical order"""
    import random
    import vlib
    order = random.Random(variant)
    classes = [vlib.P1, vlib.P2, vlib.P3, vlib.Nest, vlib.T2, object]
    qs = []
    for c in classes:
        for z in (False, True):
            qs.append(("models_with_type", c, z))
            qs.append(("has_model", c, z))
        qs += [("has", c, None), ("has_instance", c, None), ("is_only_model", c, None)]
    for b in (False, True):
        qs.append(("attribute_tuples_with_type", Model, b))
        qs.append(("attribute_tuples_with_type", Prior, b))
    order.shuffle(qs)
    qs = qs[: 6 + variant % 14]
    out = []
    for q, c, z in qs:
        try:
            if q == "models_with_type":
                r = tuple((m.cls.__name__, m.prior_count) for m in node.models_with_type(c, include_zero_dimension=z))
            elif q == "has_model":
                r = node.has_model(c, include_zero_dimension=z)
            elif q == "attribute_tuples_with_type":
                r = tuple(str(n) for n, _ in node.attribute_tuples_with_type(c, ignore_children=z))
            else:
                r = getattr(node, q)(c)
        except Exception as e:  # noqa
            r = "raised:" + type(e).__name__
        out.append((q, c.__name__, z, r))
    if variant % 3 == 0:
        # a model composed from an object holding this one (conversion of instances / containers to models)
        if not convertible:
            r = "not-asked-while-frozen"
        else:
            try:
                built = af.AbstractPriorModel.from_instance([node])
                r = (built.prior_count, tuple(tuple(map(str, p)) for p in built.paths))
            except Exception as e:  # noqa
                r = "raised:" + type(e).__name__
        out.append(("from_instance([model])", "", None, r))
    return tuple(sorted(out, key=lambda t: (t[0], t[1], str(t[2]))))


def modifiable(node):
    if isinstance(node, Model) and not isinstance(node, (CompoundPrior, ModifiedPrior)):
        names = [a for a in node.constructor_argument_names if isinstance(node.__dict__.get(a), (Prior, float))]
        # members of a tuple argument, assigned through the `name_i` form
        from autofit.mapper.prior.tuple_prior import TuplePrior
        for a in node.constructor_argument_names:
            tp = node.__dict__.get(a)
            if isinstance(tp, TuplePrior) and isinstance(tp.__dict__.get(f"{a}_0"), (Prior, float)):
                names.append(f"{a}_0")
        return names
    if isinstance(node, Collection):
        return ["__coll__"]
    return []


def do_modify(rng, node):
    names = modifiable(node)
    name = rng.choice(names)
    if name == "__coll__":
        key = "added_%d" % rng.randrange(3)
        if key in node.__dict__ and rng.random() < 0.5:
            node.remove(node.__dict__[key])
        else:
            setattr(node, key, af.UniformPrior(0.0, 1.0))
        return
    if name not in node.__dict__:  # a tuple member: `pos_0` lives in the tuple prior `pos`
        cur = node.__dict__[name.rsplit("_", 1)[0]].__dict__[name]
    else:
        cur = node.__dict__[name]
    setattr(node, name, 1.5 if isinstance(cur, Prior) else af.UniformPrior(0.0, 1.0))


def one_case(ctx, progs, label="gen", script=None):
    rng = ctx.rng
    roots = []
    try:
        for prog in progs:
            roots.append(gen_comp.run_program(prog)["root"])
    except Exception as e:
        ctx.hit("program-rejected:" + type(e).__name__)
        return
    setup = script["setup"] if script else {"share": rng.random() < 0.3, "copy": rng.random() < 0.7}
    if setup["share"] and len(roots) >= 2 and isinstance(roots[1], Collection):
        kids = [k for k in children(roots[0]) if isinstance(k, Model) and not isinstance(k, (CompoundPrior, ModifiedPrior))]
        if kids:
            roots[1].shared_component = kids[0]
    if setup["copy"]:
        roots[0].freeze()
        try:
            answer(roots[0])
        except Exception as e:  # noqa
            ctx.fail("C13-query-raises", "a query on a freshly frozen model raised (after earlier, unrelated operations in this process)",
                     {"programs": progs, "setup": setup, "ops": [], "label": label}, type(e).__name__ + ":" + str(e)[:80])
            return
        roots.append(copy.deepcopy(roots[0]))
        roots[0].unfreeze()
    for r in roots:
        r.__dict__["flaky"] = Flaky()

    nodes, index = [], {}
    for r in roots:
        for n in reach(r):
            if id(n) not in index:
                index[id(n)] = len(nodes)
                nodes.append(n)
    sub = {str(i): sorted(index[id(d)] for d in reach(n)) for i, n in enumerate(nodes)}
    anc = {str(i): sorted(j for j in range(len(nodes)) if j != i and i in sub[str(j)]) for i in range(len(nodes))}
    init_frozen = [i for i, n in enumerate(nodes) if getattr(n, "_is_frozen", False)]
    root_ix = [index[id(r)] for r in roots]

    if script:
        ops = script["ops"]
    else:
        ops = []
        for _ in range(rng.randint(15, 40)):
            r = rng.random()
            tgt = rng.choice(root_ix) if rng.random() < 0.45 else rng.randrange(len(nodes))
            if r < 0.38:
                ops.append(["query", tgt, rng.choice([0, rng.randrange(1, 1000)])])
            elif r < 0.52:
                ops.append(["freeze", tgt])
            elif r < 0.64:
                ops.append(["unfreeze", tgt if rng.random() < 0.25 else rng.choice(root_ix)])
            elif r < 0.88:
                cands = [i for i, n in enumerate(nodes) if modifiable(n)]
                if cands:
                    ops.append(["modify", rng.choice(cands)])
            elif r < 0.94:
                ops.append(["failing", rng.choice(root_ix), rng.randrange(4)])
            else:
                ops.append(["pass", tgt])

    # ---- real execution
    real = []
    fresh = []
    for op in ops:
        kind, i = op[0], op[1]
        extra = op[2] if len(op) > 2 else 0
        node = nodes[i]
        if kind == "query":
            try:
                real.append(("answered", answer(node, extra)))
            except Exception as e:
                real.append(("raised", type(e).__name__ + ":" + str(e)[:80]))
            try:
                fresh.append(fresh_answer(node, extra))
            except Exception as e:
                fresh.append(("fresh-raised", type(e).__name__))
        elif kind == "freeze":
            node.freeze()
            real.append("done"); fresh.append(None)
        elif kind == "unfreeze":
            node.unfreeze()
            real.append("done"); fresh.append(None)
        elif kind == "modify":
            try:
                do_modify(rng, node)
                real.append("done")
            except AssertionError:
                real.append("rejected")
            fresh.append(None)
        elif kind == "failing":
            Flaky.bad = extra == 0
            try:
                if extra == 0:
                    node.paths
                elif extra == 1:
                    node.has_instance("not a type")  # a user error inside the recursive walk
                elif extra == 2:
                    node.attribute_tuples_with_type(["not", "a", "type"])
                else:
                    # a conversion that reaches a frozen model fails while replacing its place-holders
                    af.AbstractPriorModel.from_instance([node])
                    af.ModelInstance({"held": node}).as_model()
                real.append("no-failure")
            except (RuntimeError, TypeError, AssertionError):
                real.append("done")
            except Exception as e:
                real.append("raised:" + type(e).__name__)
            finally:
                Flaky.bad = False
            fresh.append(None)
        elif kind == "pass":
            try:
                fresh_pass = fresh_answer(node)
            except Exception:
                fresh_pass = None
            try:
                n_par = node.prior_count if not node._is_frozen else len({p.id for _, p in node.path_priors_tuples})
                with contextlib.redirect_stdout(io.StringIO()):  # autoconf prints a blank line per missing config
                    node.mapper_from_prior_means([0.5] * n_par, a=1.0)
            except Exception:
                pass
            real.append("done"); fresh.append(fresh_pass)

    # ---- a component added between two freezes is frozen by the second one (freeze reaches the components the
    # model has *now*), and the answers of the re-frozen model are those of its current composition
    for r in roots[:2]:
        if not isinstance(r, Collection):
            continue
        try:
            r.unfreeze()
            import vlib
            late = af.Model(vlib.P2)
            r.late_component = late
            r.freeze()
            before = answer(r)
            try:
                late.a = 1.5
                accepted = True
            except AssertionError:
                accepted = False
            ctx.hit("late-component:" + ("accepted" if accepted else "rejected"))
            if accepted:
                ctx.fail("C13-frozen-accepts", "a component added after unfreeze() and frozen again with its parent accepts an assignment",
                         {"programs": progs, "setup": setup, "ops": ops, "label": label, "late_component": True}, None)
            elif answer(r) != fresh_answer(r) or before != answer(r):
                ctx.fail("C13-stale-answer", "answers of a re-frozen model differ from an uncached rebuild (component added between two freezes)",
                         {"programs": progs, "setup": setup, "ops": ops, "label": label, "late_component": True}, None)
            r.unfreeze()
            del r.late_component
        except Exception as e:  # noqa
            ctx.hit("late-component-probe-raised:" + type(e).__name__)

    # ---- model
    # prior passing reads the (cached) parameter order of the node: for the cache it is a query
    # the cache key (function name and arguments) is abstracted to a number: the variant of the question asked
    model_ops = [["query", o[1], PASS_KEY] if o[0] == "pass" else (["query", o[1], (o[2] if len(o) > 2 else 0)] if o[0] == "query" else [o[0], o[1]])
                 for o in ops]
    ans = ctx.lean.ask({"p": "C13", "sub": sub, "anc": anc, "init_frozen": init_frozen, "ops": model_ops})
    case = {"programs": progs, "setup": setup, "ops": ops, "label": label}
    if "driver_error" in ans:
        ctx.disagree("driver", case, None, ans)
        return
    kinds = [o[0] for o in ops]
    nontrivial = "freeze" in kinds and "modify" in kinds[kinds.index("freeze"):] and "query" in kinds
    ctx.case({"sub": sub, "ops": ops, "frozen": init_frozen}, nontrivial=nontrivial,
             sample={"nodes": len(nodes), "roots": root_ix, "ops": ops[:12], "shared": setup["share"], "copy": setup["copy"]})
    unsafe_seen = False
    fresh_by_version = {}
    cur_version = {}
    for j, (op, r, mo, safe) in enumerate(zip(ops, real, ans["outs"], ans["safe"])):
        kind, i = op[0], op[1]
        ctx.hit("op:" + kind + (":types" if kind == "query" and len(op) > 2 and op[2] else ""))
        if kind == "unfreeze" and not safe:
            unsafe_seen = True
            ctx.hit("unsafe-unfreeze")
        if kind == "query":
            v = mo["answered"]
            if mo.get("key") != (op[2] if len(op) > 2 else 0):
                ctx.disagree("C13.answer-key", dict(case, at=j), {"asked": op[2] if len(op) > 2 else 0}, mo)
            # the model's current version of node i: replay bookkeeping from modify outcomes
            cur = cur_version.get(i, 0)
            fresh_by_version.setdefault((i, cur), fresh[j][:3])
            expected = fresh_by_version.get((i, v), fresh[j][:3])
            if r[0] != "answered":
                cls = "C13-query-raises"
                ctx.fail(cls, "a query raised after an earlier operation", dict(case, at=j), r[1])
                continue
            if r[1] != fresh[j]:
                ctx.hit("stale-answer")
                ctx.fail("C13-child-unfreeze" if unsafe_seen else "C13-stale-answer",
                         "a model answers from an outdated composition (cached answer differs from an uncached rebuild)",
                         dict(case, at=j), {"node": i, "answer": str(r[1])[:200], "fresh": str(fresh[j])[:200]})
            if unsafe_seen and r[1] != fresh[j]:
                # after an unfreeze below a frozen parent (known finding) an unfrozen ancestor reads through the
                # frozen parent's stale cache; the model tracks versions per frozen node only (A.6 of DESIGN.md)
                ctx.hit("read-through-stale-after-unsafe-unfreeze")
            elif r[1][:3] != expected:
                ctx.disagree("C13.answer-version", dict(case, at=j), {"real": str(r[1])[:200]}, {"model_version": v, "current": cur, "expected": str(expected)[:200]})
        elif kind == "pass":
            fresh_by_version.setdefault((i, cur_version.get(i, 0)), fresh[j][:3] if fresh[j] else fresh[j])
        elif kind == "modify":
            if mo in ("done", "rejected") and r != mo:
                frozen_now = bool(getattr(nodes[i], "_is_frozen", False))
                if r == "done" and mo == "rejected":
                    ctx.fail("C13-frozen-accepts", "a frozen model accepted an assignment", dict(case, at=j), {"node": i})
                else:
                    ctx.disagree("C13.modify", dict(case, at=j), r, mo)
            if mo == "done":
                for k in [i] + anc[str(i)]:
                    cur_version[k] = cur_version.get(k, 0) + 1
        elif kind == "failing":
            if r != "done":
                ctx.hit("failing-op:" + r)


def run(ctx):
    ctx.rule = RULE
    ctx.assumptions = [
        "answers compared: prior_count, paths, number of unique priors; the fresh answer is that of a deep copy after unfreeze()",
        "modifications toggle a constructor argument between a prior and a constant, or add/remove a prior on a collection, so every accepted modification changes the answers of the node and its ancestors",
    ]
    for f in sorted((VERIF / "corpus" / "C13").glob("*.json")):
        c = json.loads(f.read_text())
        if "tree_ops" in c:
            tree_case(ctx, c["programs"], label=f.name, script=c["tree_ops"])
            continue
        one_case(ctx, c["programs"], label=f.name, script=c.get("script"))
    for _ in range(ctx.n(140, 2500)):
        progs = [gen_comp.gen_program(ctx.rng, allow_pow=False, allow_array=False), gen_comp.gen_program(ctx.rng, allow_pow=False, allow_array=False)]
        one_case(ctx, progs)
        if ctx.rng.random() < 0.3:
            failed_modification(ctx, progs[0])
    same_named_classes(ctx)
    frozen_routes(ctx)
    for _ in range(ctx.n(40, 900)):  # tree refinement: the Lean model holds and edits the compositions
        tree_case(ctx, [gen_comp.gen_program(ctx.rng, allow_pow=False, allow_array=False), gen_comp.gen_program(ctx.rng, allow_pow=False, allow_array=False)])
    for _ in range(ctx.n(40, 600)):  # the recursion cache as a state machine with exceptions
        reccache_case(ctx)
    reccache_process_wide(ctx)


class Unresolvable:
    """a class whose constructor annotation cannot be resolved: composing a model of it raises NameError"""

    def __init__(self, x: "NoSuchType" = 1.0):  # noqa: F821
        self.x = x


def failed_modification(ctx, prog):
    """a modification that raises half-way (a component that cannot be converted to a model) leaves nothing behind:
    the same later modifications give the same answers as on a model that never saw the failed call"""
    import vlib
    try:
        a = gen_comp.run_program(prog)["root"]
        b = gen_comp.run_program(prog)["root"]
    except Exception:  # noqa
        return
    colls = [(x, y) for x, y in zip(reach(a), reach(b)) if isinstance(x, Collection) and isinstance(y, Collection)]
    if not colls:
        return
    x, y = colls[ctx.rng.randrange(len(colls))]
    failed = 0
    for bad in (lambda: x.append(Unresolvable), lambda: x.append([Unresolvable]), lambda: setattr(x, "bad_member", {"k": Unresolvable}),
                lambda: x.__setitem__(0, Unresolvable)):
        try:
            bad()
        except Exception:  # noqa
            failed += 1
    if not failed:
        ctx.hit("failed-modification:none-raised")
        return
    case = {"programs": [prog], "label": "failed-modification"}
    try:
        for m in (x, y):
            m.append(af.Model(vlib.P1))
            m.append(af.Model(vlib.P2))
        ra, rb = answer(a), answer(b)
        na = sorted(k for k in vars(a.instance_from_prior_medians(ignore_prior_limits=True)) if k != "id")
        nb = sorted(k for k in vars(b.instance_from_prior_medians(ignore_prior_limits=True)) if k != "id")
    except Exception as e:  # noqa
        ctx.hit("failed-modification:probe-raised:" + type(e).__name__)
        return
    ctx.hit("failed-modification:%d-raised" % failed)
    if "bad_member" in vars(x) or ra != rb or na != nb:
        ctx.fail("C13-answer-depends-on-failed-operation",
                 "after a modification that raised, the same later modifications give other answers (paths / names / counts) "
                 "than on a model that never saw the failed call", case,
                 {"after_failed_call": str(ra)[:300], "without": str(rb)[:300], "left_behind": "bad_member" in vars(x)})


def frozen_routes(ctx):
    """every route by which a parameter or component of a model can be assigned, replaced or removed is rejected while the
    model is frozen, and the answers stay those of an uncached rebuild"""
    import vlib
    arr = af.Array((2, 2), af.UniformPrior(0.0, 1.0))
    inner = af.Model(vlib.P2)
    coll = af.Collection(arr=arr, g=inner, lst=af.Collection([af.Model(vlib.P1), af.Model(vlib.P1)]))
    coll.freeze()
    before = answer(coll)
    routes = {
        "Model.setattr": lambda: setattr(inner, "a", 0.5),
        "Collection.setattr": lambda: setattr(coll, "extra", af.UniformPrior(0.0, 1.0)),
        "Collection.setitem": lambda: coll.lst.__setitem__(0, af.Model(vlib.P2)),
        "Collection.append": lambda: coll.lst.append(af.Model(vlib.P2)),
        "Collection.remove": lambda: coll.lst.remove(coll.lst[0]),
        "Array.setitem": lambda: arr.__setitem__((0, 1), 0.5),
        "Model.delattr": lambda: delattr(inner, "b"),
        "Collection.delattr": lambda: delattr(coll, "g"),
    }
    for name, f in routes.items():
        case = {"label": "frozen-routes", "route": name}
        try:
            f()
            outcome = "accepted"
        except AssertionError:
            outcome = "rejected"
        except Exception as e:  # noqa
            outcome = "raised:" + type(e).__name__
        ctx.hit("frozen-route:" + name + ":" + outcome.split(":")[0])
        if outcome == "accepted":
            ctx.fail("C13-frozen-accepts", f"a frozen model accepted a modification through {name}", case, None)
            return
        try:
            now, fresh = answer(coll), fresh_answer(coll)
        except Exception as e:  # noqa
            ctx.fail("C13-query-raises", f"a query raised after a rejected modification through {name}", case, type(e).__name__)
            return
        if now != before or now != fresh:
            ctx.fail("C13-stale-answer", f"answers of a frozen model changed or went stale after a rejected modification through {name}", case,
                     {"before": str(before)[:200], "now": str(now)[:200], "fresh": str(fresh)[:200]})
            return


def same_named_classes(ctx):
    """what a model reports depends on the class it was made for, not on another class of the same name (and
    module) for which a model was made earlier in the process"""
    import vlib

    class P3:  # same name and module as vlib.P3, another constructor
        def __init__(self, a=0.0, b=1.0):
            self.a = a
            self.b = b

    P3.__module__, P3.__qualname__ = "vlib", "P3"
    for first, second, names in ((vlib.P3, P3, ["a", "b"]), (P3, vlib.P3, ["a", "b", "c"])):
        case = {"label": "same-named-classes", "second": names}
        try:
            af.Model(first).prior_count
            m = af.Model(second)
            got = (m.prior_count, sorted(".".join(map(str, p)) for p in m.paths))
            inst = m.instance_from_prior_medians()
            ok = got == (len(names), names) and type(inst) is second and sorted(k for k in vars(inst) if k != "id") == names
        except Exception as e:  # noqa
            got, ok = f"{type(e).__name__}: {str(e)[:120]}", False
        ctx.hit("same-named-classes")
        if not ok:
            ctx.fail("C13-answer-depends-on-earlier-model",
                     "a model of a class reports the parameters of another class of the same name for which a model was made before",
                     case, {"got": str(got)[:300], "want": names})


# ---------------------------------------------------------------------------------------------
# tree refinement (lean/AFModel/FreezeTree.lean): the Lean model holds the compositions themselves,
# edits them, and computes the answers; the real answers are compared with the Lean-computed ones

TREE_KINDS = ["count", "paths", "pathIds", "uniquePaths", "ids", "inst"]


def tree_objects(root):
    """[(path, object)] of every object the model addresses below `root`, or None if an object is reached twice"""
    out, seen = [], set()

    def go(o, path):
        if id(o) in seen:
            return False
        seen.add(id(o))
        out.append((path, o))
        for k, v in o.__dict__.items():
            if k != "id" and not k.startswith("_") and isinstance(v, AbstractPriorModel) and v is not o:
                if not go(v, path + (k,)):
                    return False
        return True

    return out if go(root, ()) else None


def tree_battery(o, kinds, vec):
    """the real answers, in the order asked"""
    import extract_comp as X
    out = []
    for kd in kinds:
        try:
            if kd == "count":
                r = o.prior_count
            elif kd == "paths":
                r = [list(map(str, p)) for p in o.paths]
            elif kd == "pathIds":
                r = [int(pr.id) for _, pr in o.path_priors_tuples]
            elif kd == "uniquePaths":
                r = [list(map(str, p)) for p in o.unique_prior_paths]
            elif kd == "ids":
                r = [int(pr.id) for pr in o.priors_ordered_by_id]
            else:
                try:
                    r = X.canon_inst(X.inst_of(o.instance_from_vector(vec, ignore_prior_limits=True)))
                except AssertionError as e:
                    r = "wrong-length" if "Vector length" in str(e) else {"err": "AssertionError:" + str(e)[:80]}
        except Exception as e:  # noqa
            r = {"err": type(e).__name__ + ":" + str(e)[:80]}
        out.append(r)
    return out


def tree_value(rng, spec, roots):
    """the value a scripted assignment gives"""
    import vlib
    k = spec["v"]
    if k == "prior":
        return af.UniformPrior(0.0, 1.0)
    if k == "const":
        return float(spec["x"])
    if k == "model":
        return af.Model(vlib.CLASSES[spec["cls"]])
    if k == "coll":
        return af.Collection(inner=af.Model(vlib.P1), other=af.Model(vlib.P2))
    if k == "share":  # a prior already in use somewhere (the same parameter at one more place)
        r, path = spec["src"]
        o = roots[r]
        for name in path:
            o = o.__dict__[name]
        return o
    raise ValueError(k)


def tree_priors(root):
    out = []
    for path, o in tree_objects(root) or []:
        for k, v in o.__dict__.items():
            if not k.startswith("_") and isinstance(v, Prior):
                out.append(list(path) + [k])
    return out


def tree_gen_op(rng, roots, objs):
    """draw one operation for the current state"""
    r = rng.randrange(len(roots))
    paths = objs[r]
    path, o = paths[0] if rng.random() < 0.4 else rng.choice(paths)
    x = rng.random()
    if x < 0.36:
        kinds = rng.sample(TREE_KINDS, rng.randint(1, len(TREE_KINDS)))
        return {"op": "query", "r": r, "path": list(path), "kinds": kinds, "short": rng.random() < 0.05}
    if x < 0.48:
        return {"op": "freeze", "r": r, "path": list(path)}
    if x < 0.60:
        return {"op": "unfreeze", "r": r, "path": list(path) if rng.random() < 0.25 else []}
    if x < 0.85:
        cands = [(p_, o_) for p_, o_ in paths if modifiable(o_)]
        if not cands:
            return None
        path, o = rng.choice(cands)
        if isinstance(o, Collection):
            key = rng.choice(["added_0", "added_1", "z_b", "late"])
            y = rng.random()
            if y < 0.3:
                spec = {"v": "prior"}
            elif y < 0.45:
                spec = {"v": "const", "x": round(rng.uniform(-5, 5), 3)}
            elif y < 0.7:
                spec = {"v": "model", "cls": rng.choice(["P1", "P2", "T2", "Nest"])}
            elif y < 0.8:
                spec = {"v": "coll"}
            else:
                pri = [(r2, pp) for r2 in range(len(roots)) for pp in tree_priors(roots[r2])]
                spec = {"v": "share", "src": list(rng.choice(pri))} if pri else {"v": "prior"}
            return {"op": "set", "r": r, "path": list(path), "key": key, "value": spec}
        names = list(modifiable(o))
        from autofit.mapper.prior.tuple_prior import TuplePrior
        for a in o.constructor_argument_names:  # every member of a tuple argument, through the `name_i` form
            tp = o.__dict__.get(a)
            if isinstance(tp, TuplePrior):
                names += [k_ for k_, v_ in tp.__dict__.items() if k_.startswith(a + "_") and isinstance(v_, (Prior, float)) and k_ not in names]
        name = rng.choice(names)
        holder = o.__dict__ if name in o.__dict__ else o.__dict__[name.rsplit("_", 1)[0]].__dict__
        cur = holder[name]
        y = rng.random()
        if isinstance(cur, Prior) and y < 0.6:
            spec = {"v": "const", "x": round(rng.uniform(-5, 5), 3)}
        elif y < 0.85:
            spec = {"v": "prior"}
        else:
            pri = [(r2, pp) for r2 in range(len(roots)) for pp in tree_priors(roots[r2])]
            spec = {"v": "share", "src": list(rng.choice(pri))} if pri else {"v": "prior"}
        return {"op": "set", "r": r, "path": list(path), "key": name, "value": spec}
    if x < 0.91:
        cands = [(p_, o_) for p_, o_ in paths if isinstance(o_, Collection)
                 and any(k in o_.__dict__ for k in ("added_0", "added_1", "z_b", "late"))]
        if not cands:
            return None
        path, o = rng.choice(cands)
        key = rng.choice([k for k in ("added_0", "added_1", "z_b", "late") if k in o.__dict__])
        return {"op": "remove", "r": r, "path": list(path), "key": key}
    if x < 0.95:
        return {"op": "failing", "r": r, "path": list(path), "how": rng.randrange(2)}
    return {"op": "copy", "r": r, "path": list(path), "how": rng.choice(["deepcopy", "copy", "pickle"])}


def tree_case(ctx, progs, label="tree", script=None):
    import pickle
    import extract_comp as X
    rng = ctx.rng
    roots = []
    try:
        for prog in progs:
            roots.append(gen_comp.run_program(prog)["root"])
    except Exception as e:
        ctx.hit("program-rejected:" + type(e).__name__)
        return
    objs = [tree_objects(r) for r in roots]
    if any(o is None for o in objs) or len({id(o) for l in objs for _, o in l}) != sum(len(l) for l in objs):
        ctx.hit("tree:aliased-objects-skipped")
        return
    wire_roots = [X.node_of(r) for r in roots]
    loose = any(c01.has_loose(w) for w in wire_roots)
    n_ops = len(script) if script is not None else rng.randint(12, 30)
    ops, wire_ops, real, fresh, flags = [], [], [], [], []
    for j in range(n_ops):
        op = script[j] if script is not None else tree_gen_op(rng, roots, objs)
        if op is None:
            continue
        r, path = op["r"], tuple(op["path"])
        if r >= len(roots):
            continue
        here = dict(objs[r])
        if path not in here:
            continue
        o = here[path]
        kind = op["op"]
        if kind == "query":
            try:
                twin = copy.deepcopy(o)
                twin.unfreeze()
            except Exception as e:  # noqa
                ctx.hit("tree:twin-raised:" + type(e).__name__)
                continue
            if "vec" not in op:
                try:
                    op["vec"] = c01.test_vector(rng, twin)
                except Exception:
                    op["vec"] = []
                if op.get("short"):
                    op["vec"] = op["vec"][:-1] if op["vec"] else [0.5]
            real.append(tree_battery(o, op["kinds"], op["vec"]))
            fresh.append(tree_battery(twin, op["kinds"], op["vec"]))
            wire_ops.append(["query", r, list(path), op["kinds"], [common_f2h(x) for x in op["vec"]]])
        elif kind in ("freeze", "unfreeze"):
            getattr(o, kind)()
            real.append("done"); fresh.append(None)
            wire_ops.append([kind, r, list(path)])
        elif kind == "set":
            try:
                value = tree_value(rng, op["value"], roots)
            except Exception:
                continue
            wire_value = X.node_of(value)  # what is assigned, not what the object then holds
            try:
                setattr(o, op["key"], value)
                real.append("done")
                # oracle: a change made on an unfrozen model is reflected - the object now holds the value at that name
                held = o.__dict__.get(op["key"], None)
                if held is None and "_" in op["key"]:
                    held = getattr(o.__dict__.get(op["key"].split("_")[0]), "__dict__", {}).get(op["key"])
                if not (held is value or (isinstance(value, float) and held == value)):
                    ctx.fail("C13-change-not-reflected", "an accepted assignment is not reflected: the model does not hold the assigned value under that name",
                             {"programs": progs, "tree_ops": ops + [op], "label": label}, {"key": op["key"], "held": str(held)[:80]})
            except AssertionError:
                real.append("rejected")
            fresh.append(None)
            wire_ops.append(["set", r, list(path), op["key"], wire_value])
        elif kind == "remove":
            item = o.__dict__.get(op["key"])
            try:
                same = sum(1 for k_, v_ in o.__dict__.items() if not k_.startswith("_") and k_ not in X.INERT and bool(v_ == item))
            except Exception:
                same = 0
            if item is None or same != 1 or not isinstance(item, (Prior, Model)):
                # (`remove` compares the item with every entry of `__dict__`: a float item also deletes an equal
                # counter, a Collection item raises TypeError from `Collection.__eq__(item, False)`; not this property)
                ctx.hit("tree:remove-skipped")
                continue
            try:
                o.remove(item)
                real.append("done")
            except AssertionError:
                real.append("rejected")
            except Exception as e:  # noqa
                ctx.hit("tree:remove-raised:" + type(e).__name__)
                continue
            fresh.append(None)
            wire_ops.append(["remove", r, list(path), op["key"]])
        elif kind == "failing":
            try:
                if op["how"] == 0:
                    o.has_instance("not a type")
                else:
                    o.attribute_tuples_with_type(["not", "a", "type"])
                real.append("no-failure")
            except Exception:
                real.append("done")
            fresh.append(None)
            wire_ops.append(["failing", r, list(path)])
        elif kind == "copy":
            try:
                if op["how"] == "deepcopy":
                    c = copy.deepcopy(o)
                elif op["how"] == "copy":
                    c = o.copy()
                else:
                    c = pickle.loads(pickle.dumps(o))
            except Exception as e:  # noqa
                ctx.hit("tree:copy-raised:" + type(e).__name__)
                continue
            roots.append(c)
            objs.append(None)
            real.append("done"); fresh.append(None)
            wire_ops.append(["copy", r, list(path)])
            r = len(roots) - 1
            o = c
        ops.append(op)
        flags.append(bool(getattr(o, "_is_frozen", False)))
        objs[r] = tree_objects(roots[r])
        if objs[r] is None or len({id(x) for l in objs for _, x in l}) != sum(len(l) for l in objs):
            ctx.hit("tree:aliased-after-op")  # (a shared prior is a leaf; objects are never shared by these ops)
            break

    case = {"programs": progs, "tree_ops": ops, "label": label}
    ans = ctx.lean.ask({"p": "C13", "mode": "tree", "roots": wire_roots, "ops": wire_ops})
    if "driver_error" in ans:
        ctx.disagree("driver", case, None, ans)
        return
    kinds = [o_["op"] for o_ in ops]
    nontrivial = "freeze" in kinds and any(k in ("set", "remove") for k in kinds[kinds.index("freeze"):]) and "query" in kinds
    ctx.case({"roots": wire_roots, "ops": wire_ops}, nontrivial=nontrivial,
             sample={"tree": True, "objects": [len(l or []) for l in objs], "ops": [[o_["op"], o_["r"], o_["path"]] + ([o_["key"], o_["value"]["v"]] if o_["op"] == "set" else []) for o_ in ops[:12]]})
    unsafe_seen = False
    for j, (op, re_, fr, mo, safe, mfl, rfl) in enumerate(zip(ops, real, fresh, ans["outs"], ans["safe"], ans["frozen"], flags)):
        kind = op["op"]
        ctx.hit("tree-op:" + kind + (":" + op["value"]["v"] if kind == "set" else ""))
        if kind == "unfreeze" and not safe:
            unsafe_seen = True
            ctx.hit("tree:unsafe-unfreeze")
        if mfl != rfl:
            ctx.disagree("C13.tree-frozen-flag", dict(case, at=j), rfl, mfl)
        if kind == "query":
            for kd, a_real, a_fresh, m in zip(op["kinds"], re_, fr, mo):
                bad_real = isinstance(a_real, dict) and "err" in a_real
                bad_fresh = isinstance(a_fresh, dict) and "err" in a_fresh
                # ---- oracle: the real answer is that of an uncached rebuild
                if kd == "inst" and isinstance(a_real, dict) and isinstance(a_fresh, dict) and not bad_real and not bad_fresh:
                    stale = X.inst_diff(a_real, a_fresh, 0) is not None
                else:
                    stale = (a_real != a_fresh) and not (bad_real and bad_fresh)
                if stale:
                    ctx.hit("tree:stale-answer")
                    ctx.fail("C13-child-unfreeze" if unsafe_seen else "C13-stale-answer",
                             "a model answers from an outdated composition (cached answer differs from an uncached rebuild)",
                             dict(case, at=j), {"question": kd, "answer": str(a_real)[:200], "fresh": str(a_fresh)[:200]})
                    continue
                if unsafe_seen:
                    continue  # outside the guard of the theorem (known finding); the model is not compared there
                # ---- tie: the real answer is the Lean-computed answer of the Lean-held composition
                m_ans = m.get("answered") if isinstance(m, dict) else m
                if kd != "inst" or a_real == "wrong-length" or m_ans == "wrong-length":
                    if bad_real or a_real != m_ans:
                        ctx.disagree("C13.tree-answer:" + kd, dict(case, at=j), a_real, m_ans)
                else:
                    mi = X.canon_inst(m_ans)
                    if bad_real:
                        if not c01.contains_missing_or_domain(mi):
                            ctx.disagree("C13.tree-answer:inst", dict(case, at=j), a_real, mi)
                    else:
                        d = X.inst_diff(a_real, mi, 4 if loose else 0)
                        if d and not c01.arith_domain(a_real, mi):
                            ctx.disagree("C13.tree-answer:inst", dict(case, at=j), {"diff_at": d[0], "impl": d[1]}, {"model": d[2]})
        elif kind in ("set", "remove"):
            m = mo[0] if mo else None
            if m != re_:
                if re_ == "done" and m == "rejected":
                    ctx.fail("C13-frozen-accepts", "a frozen model accepted an assignment / a removal", dict(case, at=j), {"path": op["path"]})
                else:
                    ctx.disagree("C13.tree-modify", dict(case, at=j), re_, m)
        elif kind == "copy":
            if (mo[0] if mo else None) != "done":
                ctx.disagree("C13.tree-copy", dict(case, at=j), re_, mo)


def common_f2h(x):
    from common import f2h
    return f2h(x)


# ---------------------------------------------------------------------------------------------
# the process-wide recursion cache (lean/AFModel/RecCache.lean)


def reccache_gen(rng, depth=0, anc=()):
    id_ = rng.choice(anc) if anc and rng.random() < 0.2 else rng.randrange(1, 9)
    n = {"id": id_, "raises": rng.random() < (0.12 if depth else 0.05), "children": []}
    if depth < 3:
        for _ in range(rng.randint(0, 3)):
            n["children"].append(reccache_gen(rng, depth + 1, anc + (id_,)))
    return n


def reccache_case(ctx, calls=None, label="reccache"):
    """walks that recurse, meet cycles and raise, through the library's `DynamicRecursionCache` wrapper"""
    from autofit.mapper.prior_model.recursion import DynamicRecursionCache, RecursionPromise
    rng = ctx.rng
    if calls is None:
        calls = [reccache_gen(rng) for _ in range(rng.randint(1, 5))]

    class Item:
        def __init__(self, tag):
            self.tag = tag

    items = {i: Item(i) for i in range(0, 10)}
    tag_of = {id(o): t for t, o in items.items()}
    rc = DynamicRecursionCache()
    trace = []

    @rc
    def walk(item, spec):
        trace.append(item.tag)
        got = [walk(items[ch["id"]], ch) for ch in spec["children"]]
        if spec["raises"]:
            raise RuntimeError("scripted failure")
        return [item.tag, len(got)]

    case = {"calls": calls, "label": label}
    outs, left = [], []
    for c in calls:
        try:
            r = walk(items[c["id"]], c)
            outs.append("promise" if isinstance(r, RecursionPromise) else "ok")
        except RuntimeError:
            outs.append("raised")
        left.append(sorted(tag_of.get(k, -1) for k in rc.cache))
    ans = ctx.lean.ask({"p": "C13", "mode": "reccache", "calls": calls})
    if "driver_error" in ans:
        ctx.disagree("driver", case, None, ans)
        return
    size = lambda n: 1 + sum(size(ch) for ch in n["children"])  # noqa
    ctx.case({"calls": calls}, nontrivial="raised" in outs and sum(size(c) for c in calls) >= 4,
             sample={"reccache": True, "outs": outs, "trace": trace[:20]})
    ctx.hit("reccache:" + "+".join(sorted(set(outs))))
    # ---- oracle: no entry of a finished call is left; a top-level call is never answered by a placeholder
    if any(left) or "promise" in outs:
        ctx.fail("C13-recursion-cache-entry-left", "the process-wide recursion cache keeps the entry of a finished (failed) call: a later walk of that object is answered with a placeholder",
                 case, {"left": left, "outs": outs})
    # ---- tie
    if outs != ans["outs"] or left[-1] != sorted(ans["cache"]) or trace != ans["trace"]:
        ctx.disagree("C13.reccache", case, {"outs": outs, "cache": left[-1], "trace": trace}, ans)


def reccache_process_wide(ctx):
    """the library's own instances (closures of the decorated functions) hold nothing between calls"""
    import autofit.mapper.model as mm
    import autofit.mapper.prior_model.abstract as ab
    from autofit.mapper.prior_model.recursion import DynamicRecursionCache
    found = 0
    for mod in (mm, ab):
        for name, f in vars(mod).items():
            for cell in (getattr(f, "__closure__", None) or ()):
                try:
                    v = cell.cell_contents
                except ValueError:
                    continue
                if isinstance(v, DynamicRecursionCache):
                    found += 1
                    if v.cache:
                        ctx.fail("C13-recursion-cache-entry-left", "the process-wide recursion cache holds an entry although no walk is in progress",
                                 {"label": "reccache-process-wide", "function": name}, {"entries": len(v.cache)})
    ctx.hit("reccache:process-wide-instances:%d" % found)


def replay(ctx, payload):
    case = payload.get("case") or payload.get("disagreements", [{}])[0].get("case")
    if case.get("label") == "same-named-classes":
        return same_named_classes(ctx)
    if case.get("label") == "frozen-routes":
        return frozen_routes(ctx)
    if case.get("label") == "failed-modification":
        return failed_modification(ctx, case["programs"][0])
    if case.get("label") == "reccache-process-wide":
        run(ctx)
        return
    if "calls" in case:
        return reccache_case(ctx, calls=case["calls"], label="replay")
    if "tree_ops" in case:
        return tree_case(ctx, case["programs"], label="replay", script=case["tree_ops"])
    one_case(ctx, case["programs"], label="replay", script={"setup": case["setup"], "ops": case["ops"]})
