"""C12, configuration part: where a place's width modifier and gaussian limits come from.

* `check_tables`   the generated Lean tables (lean/AFModel/Generated/C12.lean) are the `path_value_map`s of the
                   configuration directories the library has loaded; names the chain in force
* `lookup_cases`   `WidthModifier.for_class_and_attribute_name` / `Limits.for_class_and_attributes_name` of the
                   real library against the Lean look-up (`AFModel/WidthCfg.lean`) for classes with single,
                   multiple and diamond inheritance, modules whose dotted name merely *ends* like a configured
                   one, unknown classes and attributes, malformed entries, and several orders of the chain
* `places_of`      the (class, attribute, own modifier) of every parameter handed to the model
"""
import contextlib
import math
from pathlib import Path

import numpy as np

from common import f2h, h2f, VERIF, REPO

import autofit as af
from autoconf import conf
from autoconf.directory_config import RecursiveConfig, PriorConfigWrapper
from autoconf.exc import ConfigException
from autofit.mapper.model import ModelInstance
from autofit.mapper.prior.tuple_prior import TuplePrior
from autofit.mapper.prior.width_modifier import WidthModifier, RelativeWidthModifier, AbsoluteWidthModifier
from autofit.mapper.prior_model.abstract import Limits
from autofit.mapper.prior_model.prior_model import Model
from autofit.mapper.prior.arithmetic.compound import CompoundPrior, ModifiedPrior

import tables_c12 as T
import vlib

HERE = Path(__file__).resolve().parent
DIRS = {
    "repo": REPO / "autofit" / "config",
    "harness": HERE / "config",
    "alt": HERE / "config_c12",
}


def cls_tree(cls):
    return {"p": f"{cls.__module__}.{cls.__name__}", "b": [cls_tree(b) for b in cls.__bases__]}


def family_of(tree):
    out = [tree["p"]]
    for b in tree["b"]:
        out += family_of(b)
    return out


# ------------------------------------------------------------------------------------------------
# generated tables vs. the configuration the library loaded


def live_table(json_prior_config):
    """the library's own path_value_map, restricted and classified like the translator does"""
    return [[p, list(T.classify(v))] for p, v in json_prior_config.path_value_map.items() if T.relevant(p)]


def wire_table(rows):
    out = []
    for r in rows:
        v = r["val"]
        if v["k"] == "wm":
            out.append([r["path"], ["wm", v["relative"], h2f(v["value"])]])
        elif v["k"] == "lim":
            out.append([r["path"], ["lim", h2f(v["lo"]), h2f(v["hi"])]])
        else:
            out.append([r["path"], ["other"]])
    return out


def same_rows(a, b):
    key = lambda r: (r[0], [("nan" if isinstance(x, float) and math.isnan(x) else x) for x in r[1]])
    return sorted(map(key, a)) == sorted(map(key, b))


def check_tables(ctx):
    """-> names of the generated tables along the chain in force (None: tie broken)"""
    t = ctx.lean.ask({"p": "C12", "q": "table"})
    if "driver_error" in t:
        ctx.disagree("C12.table", {}, None, t)
        return None
    lean = {n: wire_table(rows) for n, rows in t["tables"].items()}
    ctx.notes["c12_tables"] = {n: len(r) for n, r in lean.items()}
    chain = []
    for k, cfg in enumerate(conf.instance.prior_config.prior_configs):
        live = live_table(cfg)
        name = None
        if not live:
            name = "empty"
        elif k == 0 and same_rows(live, lean["scratch"]):
            name = "scratch"
        else:
            for n in ("repo", "harness", "alt", "scratch"):
                if same_rows(live, lean[n]):
                    name = n
                    break
        if name is None:
            d = Path(str(cfg.directory))
            guess = "scratch" if k == 0 else next((n for n, p in DIRS.items() if (p / "priors") == d), "?")
            want = lean.get(guess, [])
            diff = [r for r in live if not any(same_rows([r], [w]) for w in want)][:3] + \
                   [w for w in want if not any(same_rows([r], [w]) for r in live)][:3]
            ctx.disagree("C12.generated-table", {"what": "lean/AFModel/Generated/C12.lean is not the configuration the library loaded",
                                                 "directory": str(d)}, diff, guess)
            return None
        chain.append(name)
    # the files themselves: also the directories only the look-up cases put on the chain
    for n, d in DIRS.items():
        from autoconf.json_prior.config import JSONPriorConfig
        if not same_rows(live_table(JSONPriorConfig.from_directory(d / "priors")), lean[n]):
            ctx.disagree("C12.generated-table", {"what": "generated table differs from the directory", "directory": str(d)}, None, n)
            return None
    for n, ok in t["abs_nonneg"].items():
        if not ok:
            ctx.fail("C12-negative-width", f"the prior configuration '{n}' holds a negative absolute width", {"table": n}, None)
    return chain


_JSON_CONFIGS = {}


def _json_config(directory):
    from autoconf.json_prior.config import JSONPriorConfig
    key = str(directory)
    if key not in _JSON_CONFIGS:
        _JSON_CONFIGS[key] = JSONPriorConfig.from_directory(directory)
    return _JSON_CONFIGS[key]


@contextlib.contextmanager
def chain_in_force(names, scratch_dir):
    saved = conf.instance.configs
    dirs = [scratch_dir if n == "scratch" else DIRS[n] for n in names]
    try:
        conf.instance.configs = [RecursiveConfig(str(d)) for d in dirs]
        # what `conf.instance.prior_config` would build now, without parsing every directory again for every chain
        conf.instance._prior_config = PriorConfigWrapper([_json_config(Path(d) / "priors") for d in dirs])
        yield
    finally:
        conf.instance.configs = saved


# ------------------------------------------------------------------------------------------------
# look-up correspondence


def synth(name, module, bases=()):
    return type(name, tuple(bases), {"__module__": module})


def class_pool(rng):
    """classes whose configuration is found directly, through a base (first, second, diamond), through a
    module name that merely ends like a configured one, or not at all"""
    Base = synth("Base", "vlib")
    P9 = synth("P9", "vlib")
    K = synth("K", "sub.mod")
    K2 = synth("K", "pkg.xsub.mod")  # "pkg.xsub.mod.K..." ends with "sub.mod.K..."
    Odd = synth("Odd", "vlib")
    Z = synth("Z", "deep")
    fake = synth("P2", "myvlib")  # "myvlib.P2.a..." ends with "vlib.P2.a..."
    G = synth("Gaussian", "mymodel")  # "mymodel.Gaussian.centre..." ends with "model.Gaussian..." (repo: model.yaml)
    unknown = synth("Nowhere", "nowhere")
    child = synth("Child", "user", (vlib.P2,))
    grandchild = synth("GrandChild", "user", (child,))
    two = synth("Two", "user", (unknown, vlib.P3))
    two_b = synth("TwoB", "user", (vlib.P1, vlib.P3))
    left = synth("Left", "user", (Base,))
    right = synth("Right", "user", (Base, P9))
    diamond = synth("Diamond", "user", (left, right))
    odd_child = synth("OddChild", "user", (Odd, vlib.P2))
    pool = [vlib.P1, vlib.P2, vlib.P3, vlib.T2, vlib.T12, vlib.Nest, vlib.Idx, vlib.P2b, Base, P9, K, K2, Odd, Z, fake, G,
            unknown, child, grandchild, two, two_b, left, right, diamond, odd_child,
            ModelInstance, float, np.ndarray, af.ex.Gaussian, af.ex.Exponential, object]
    # a few random hierarchies over the pool
    for i in range(3):
        bases = rng.sample([c for c in pool if c not in (float, np.ndarray, object, ModelInstance)], rng.randint(1, 3))
        try:
            pool.append(synth(rng.choice(["P2", "R", "K", "Gaussian"]), rng.choice(["user", "vlib", "x.sub.mod"]), bases))
        except TypeError:  # no consistent method resolution order
            pass
    return pool


ATTRS = ["a", "b", "c", "r", "k_r", "centre_r", "pos_0", "pos_1", "p_10", "x", "zz", "centre", "normalization", "sigma",
         "rate", "ideal", "paths_n", "k", "z", "nope", "", "0", "width_modifier"]
CHAINS = [["scratch"], ["scratch", "empty"], ["repo"], ["harness", "repo"], ["repo", "harness"], ["alt", "scratch"],
          ["scratch", "alt"], ["alt", "harness", "repo"], ["repo", "alt", "harness"], ["alt"]]


def lib_lookup(cls, attr):
    """what the library answers: ('found', ...) | ('missing',) | ('malformed',) for modifier and limits, and
    the modifier after the library's fall-back"""
    try:
        d = conf.instance.prior_config.for_class_and_suffix_path(cls, [attr, "width_modifier"])
        try:
            m = WidthModifier.from_dict(d)
            wm_found = ("found", isinstance(m, RelativeWidthModifier), m.value)
        except Exception:
            wm_found = ("malformed",)
    except ConfigException:
        wm_found = ("missing",)
    try:
        m = WidthModifier.for_class_and_attribute_name(cls, attr)
        wm = (isinstance(m, RelativeWidthModifier), float(m.value), type(m).__name__)
    except Exception as e:
        wm = ("raised", type(e).__name__)
    try:
        lo, hi = Limits.for_class_and_attributes_name(cls, attr)
        lim = ("found", float(lo), float(hi))
    except ConfigException:
        lim = ("missing",)
    except Exception:
        lim = ("malformed",)
    return wm_found, wm, lim


def feq(a, b):
    return f2h(a) == f2h(b)


def class_of_tree(tree, memo):
    key = repr(tree)
    if key not in memo:
        mod, _, name = tree["p"].rpartition(".")
        real = {"builtins.object": object, "builtins.float": float, "numpy.ndarray": np.ndarray,
                "autofit.mapper.model.ModelInstance": ModelInstance}.get(tree["p"])
        if real is None and mod == "vlib" and name in vlib.CLASSES and cls_tree(vlib.CLASSES[name]) == tree:
            real = vlib.CLASSES[name]
        memo[key] = real or synth(name, mod, [class_of_tree(b, memo) for b in tree["b"] if b["p"] != "builtins.object"])
    return memo[key]


def replay_lookup(ctx, scratch_dir, lk):
    one_lookup(ctx, scratch_dir, lk["chain"], class_of_tree(lk["class"], {}), lk["attr"])


def lookup_cases(ctx, scratch_dir, n):
    rng = ctx.rng
    pool = class_pool(rng)
    # pairs for which some directory has an entry (for the class or one of its bases): most random pairs have none
    union = ["alt", "harness", "repo"]
    known = [(c, a) for c in pool for a in ATTRS
             if oracle_lookup(union, family_of(cls_tree(c)), a, "width_modifier") is not None
             or oracle_lookup(union, family_of(cls_tree(c)), a, "gaussian_limits") is not None]
    # (one chain after the other: putting a chain in force makes the library read the directories again)
    for chain in CHAINS:
        with chain_in_force([c for c in chain if c != "empty"], scratch_dir):
            for _ in range(max(1, n // len(CHAINS))):
                cls, attr = rng.choice(known) if known and rng.random() < 0.75 else (rng.choice(pool), rng.choice(ATTRS))
                one_lookup(ctx, scratch_dir, chain, cls, attr, in_force=True)


def one_lookup(ctx, scratch_dir, chain, cls, attr, in_force=False):
    if True:
        tree = cls_tree(cls)
        case = {"lookup": {"chain": chain, "class": tree, "attr": attr}}
        with (contextlib.nullcontext() if in_force else chain_in_force([c for c in chain if c != "empty"], scratch_dir)):
            wm_found, wm, lim = lib_lookup(cls, attr)
        ans = ctx.lean.ask({"p": "C12", "q": "lookup", "chain": chain, "cls": tree, "attr": attr})
        if "driver_error" in ans:
            ctx.disagree("C12.lookup.driver", case, None, ans)
            return
        ctx.case({"lookup": [chain, family_of(tree), attr]}, nontrivial=len(tree["b"]) > 0 and wm_found[0] != "missing",
                 sample={"chain": chain, "family": family_of(tree)[:5], "attr": attr})
        ctx.hit("lookup:" + wm_found[0] + "/" + lim[0])
        if ans["family"] != family_of(tree):
            ctx.disagree("C12.lookup.family", case, family_of(tree), ans["family"])
        got = ans["wm_found"]
        ok = got["k"] == wm_found[0] and (got["k"] != "found" or (got["v"]["relative"] == wm_found[1] and feq(h2f(got["v"]["value"]), wm_found[2])))
        if not ok:
            ctx.disagree("C12.lookup.width_modifier", case, list(wm_found), got)
        got = ans["lim_found"]
        ok = got["k"] == lim[0] and (got["k"] != "found" or (feq(h2f(got["v"]["lo"]), lim[1]) and feq(h2f(got["v"]["hi"]), lim[2])))
        if not ok:
            ctx.disagree("C12.lookup.gaussian_limits", case, list(lim), got)
        expl = oracle_lookup(chain, family_of(tree), attr, "gaussian_limits")
        if expl is not None and expl[0] == "lim" and lim[0] != "malformed" and \
                (lim[0] != "found" or not (feq(lim[1], expl[1]) and feq(lim[2], expl[2]))):
            ctx.fail("C12-wrong-config", "gaussian limits of a place are not the ones configured for its class and attribute",
                     case, {"library": list(lim), "configured": list(expl)})
        # after the fall-back
        if wm[0] == "raised":
            if ans["ok_no_limits"]:
                ctx.disagree("C12.lookup.raises", case, list(wm), "model: look-up succeeds")
        else:
            if not ans["ok_no_limits"] or ans["relative"] != wm[0] or not feq(h2f(ans["value"]), wm[1]):
                ctx.disagree("C12.lookup.resolved", case, list(wm), {k: ans[k] for k in ("relative", "value", "ok_no_limits")})
            # property: nothing configured -> RelativeWidthModifier(0.5); configured -> the entry of the nearest
            # class of the family in the first directory that has one (oracle independent of the model)
            exp = oracle_lookup(chain, family_of(tree), attr, "width_modifier")
            if exp is not None and exp[0] != "wm":
                exp = "malformed"
            if exp is not None and exp != "malformed":
                if (wm[0], wm[1]) != (exp[1], exp[2]):
                    ctx.fail("C12-wrong-config", "width modifier of a place is not the one configured for its class and attribute",
                             case, {"library": list(wm), "configured": list(exp)})
            elif exp is None and (wm[0], wm[1]) != (True, 0.5):
                ctx.fail("C12-wrong-config", "no width modifier configured, but the default RelativeWidthModifier(0.5) was not used",
                         case, {"library": list(wm)})


_TABLES = None


def oracle_lookup(chain, family, attr, leaf):
    """plain reading of the documented rule on the files themselves (translator's tables): first directory,
    nearest class, longest dotted path the key ends with"""
    global _TABLES
    if _TABLES is None:
        _TABLES = dict(T.directories())
    for name in chain:
        rows = _TABLES.get(name, [])
        for c in family:
            key = f"{c}.{attr}.{leaf}"
            best = None
            for p, v in rows:
                if key.endswith(p) and (best is None or len(p) > len(best[0])):
                    best = (p, v)
            if best is not None:
                return best[1] if best[1][0] != "other" else "malformed"
    return None


# ------------------------------------------------------------------------------------------------
# the place of every parameter


def candidate_places(model, prior):
    """(class, attribute name) of every place of the prior, as `prior_class_dict` / the name rule give them"""
    out = []
    for path, p in model.path_priors_tuples:
        if p.id != prior.id:
            continue
        owner = model
        chain = [model]
        for k in path[:-1]:
            owner = getattr(owner, k) if not isinstance(k, int) else owner[k]
            chain.append(owner)
        name = str(path[-1])
        holder = chain[-1]
        if isinstance(holder, TuplePrior) and len(chain) >= 2:
            holder = chain[-2]
        if isinstance(holder, Model):
            cls = holder.cls
        elif isinstance(holder, (CompoundPrior, ModifiedPrior)):
            cls = float
        elif isinstance(holder, af.Array):
            cls = np.ndarray
        else:
            cls = ModelInstance
        if name.isdigit() and len(path) > 1:
            name = str(path[-2])
        out.append((cls, name))
    return out


def place_wire(cls, name, prior):
    d = {"cls": cls_tree(cls), "attr": name}
    wm = prior.width_modifier
    if wm:
        d["own"] = {"relative": isinstance(wm, RelativeWidthModifier), "value": f2h(wm.value)}
    return d


_CLASS_TABLE = None


def class_table():
    """class name (as the extractor writes it) -> class tree"""
    global _CLASS_TABLE
    if _CLASS_TABLE is None:
        t = {n: cls_tree(c) for n, c in vlib.CLASSES.items()}
        for c in (ModelInstance, float, np.ndarray):
            t[c.__name__] = cls_tree(c)
        _CLASS_TABLE = t
    return _CLASS_TABLE


def library_classes(model, priors):
    """`prior_class_dict[prior].__name__` per parameter (None: the library has no class for it)"""
    d = model.prior_class_dict
    by_id = {}
    for p, c in d.items():
        by_id[p.id] = c
    return [by_id[p.id].__name__ if p.id in by_id else None for p in priors]
