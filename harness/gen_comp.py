"""Generator and interpreter of *programs* that compose models through the public API.

A program is a list of statements over named handles (JSON-able, kept in replay files).
`gen_program(rng, ...)` draws one; `run_program(prog)` executes it on the real library and returns
the handle table (root model under "root")."""
import math
import operator

import autofit as af
from autofit.mapper.prior.arithmetic.compound import Log, Log10

import vlib

BINOPS = {
    "add": operator.add,
    "sub": operator.sub,
    "mul": operator.mul,
    "div": operator.truediv,
    "floordiv": operator.floordiv,
    "mod": operator.mod,
    "pow": operator.pow,
}
UNOPS = {"neg": operator.neg, "abs": abs, "log": Log, "log10": Log10}


def _finite(rng, lo=-50.0, hi=50.0):
    r = rng.random()
    if r < 0.1:
        return float(rng.randint(-5, 5))
    if r < 0.15:
        return rng.choice([0.0, -0.0, 1.0, -1.0, 0.5])
    return rng.uniform(lo, hi)


def gen_prior_stmt(rng, h):
    kind = rng.choices(["U", "LU", "G", "LG"], weights=[5, 2, 3, 1])[0]
    if kind == "U":
        lo = _finite(rng)
        w = rng.choice([1e-3, 0.5, 1.0, 10.0, 100.0]) * rng.uniform(0.5, 1.5)
        if rng.random() < 0.06:
            return {"op": "prior", "h": h, "kind": "U", "args": [-w, 0.0]}  # an upper limit that is falsy
        return {"op": "prior", "h": h, "kind": "U", "args": [lo, lo + w]}
    if kind == "LU":
        lo = 10 ** rng.uniform(-6, 2)
        return {"op": "prior", "h": h, "kind": "LU", "args": [lo, lo * 10 ** rng.uniform(0.1, 4)]}
    mean = _finite(rng)
    sigma = rng.choice([0.01, 0.5, 1.0, 5.0]) * rng.uniform(0.5, 1.5)
    if rng.random() < 0.5:
        return {"op": "prior", "h": h, "kind": kind, "args": [mean, sigma]}
    return {
        "op": "prior",
        "h": h,
        "kind": kind,
        "args": [mean, sigma, mean - 40 * sigma - (100 if kind == "LG" else 0), mean + 40 * sigma + (1e30 if kind == "LG" else 0)],
    }


CLS_ARGS = {
    "P0": [], "P1b": ["a"], "P2b": ["a", "b"],
    "P1": ["a"],
    "P2": ["a", "b"],
    "P3": ["a", "b", "c"],
    "T2": ["r"],
    "T12": ["q"],
    "Nest": ["k"],
    "Deep": ["z"],
    "Mode": ["a"],
    "Idx": ["ideal", "paths_n"],
}
TUPLES = {"T2": ("pos", 2), "T12": ("p", 12)}


class Gen:
    def __init__(self, rng, max_priors=8, allow_arith=True, allow_array=True, allow_extra=True,
                 allow_tuple=True, allow_pow=True, allow_fixed_obj=True, allow_copy=True, allow_log=True, allow_unordered_array=False):
        self.rng = rng
        self.allow_log = allow_log
        self.allow_unordered_array = allow_unordered_array
        self.allow_copy = allow_copy
        self.allow_fixed_obj = allow_fixed_obj
        self.prog = []
        self.k = 0
        self.pool = []
        self.max_priors = max_priors
        self.allow_arith = allow_arith
        self.allow_array = allow_array
        self.allow_extra = allow_extra
        self.allow_tuple = allow_tuple
        self.allow_pow = allow_pow

    def fresh(self, pfx):
        self.k += 1
        return f"{pfx}{self.k}"

    def new_prior(self):
        h = self.fresh("p")
        self.prog.append(gen_prior_stmt(self.rng, h))
        self.pool.append(h)
        return h

    def pick_prior(self):
        if self.pool and (len(self.pool) >= self.max_priors or self.rng.random() < 0.45):
            return self.rng.choice(self.pool)
        return self.new_prior()

    def pick_positive_prior(self):
        stmts = {st["h"]: st for st in self.prog if st["op"] == "prior"}
        pos = [h for h in self.pool if stmts[h]["kind"] == "LU" or (stmts[h]["kind"] == "U" and stmts[h]["args"][0] > 0.01)]
        if pos and self.rng.random() < 0.7:
            return self.rng.choice(pos)
        h = self.fresh("p")
        lo = 10 ** self.rng.uniform(-3, 1)
        self.prog.append({"op": "prior", "h": h, "kind": "LU", "args": [lo, lo * 10 ** self.rng.uniform(0.2, 2)]})
        self.pool.append(h)
        return h

    def arith_expr(self, depth=0):
        rng = self.rng
        h = self.fresh("e")
        if rng.random() < 0.25:
            # (logarithms only as the outermost operation: their last-bit differences between libm and numpy must not
            # be amplified by a subtraction further up, comparisons are made in ulps)
            uop = rng.choice(["neg", "abs", "neg", "abs", "log", "log10"] if self.allow_log and depth == 0 else ["neg", "abs"])
            if uop in ("log", "log10"):
                x = {"h": self.pick_positive_prior()}  # logarithms of a strictly positive parameter
            else:
                x = {"h": self.pick_prior()} if depth >= 1 or rng.random() < 0.7 else {"h": self.arith_expr(depth + 1)}
            self.prog.append({"op": "modif", "h": h, "uop": uop, "x": x})
            return h
        ops = ["add", "sub", "mul", "div", "add", "mul", "sub"]
        if self.allow_pow:
            ops += ["floordiv", "mod"]
        bop = rng.choice(ops)

        def operand():
            r = rng.random()
            if r < 0.55:
                return {"h": self.pick_prior()}
            if r < 0.8 or depth >= 2:
                v = _finite(rng, -9, 9)
                if bop in ("div", "floordiv", "mod") and abs(v) < 0.25:
                    v = 2.5
                return v
            return {"h": self.arith_expr(depth + 1)}

        l, r = operand(), operand()
        if bop in ("div", "floordiv", "mod") and isinstance(r, dict):
            # the divisor must not be able to vanish (p - p, p % p ...): a strictly positive prior
            r = {"h": self.pick_positive_prior()}
        if not isinstance(l, dict) and not isinstance(r, dict):
            l = {"h": self.pick_prior()}
        self.prog.append({"op": "arith", "h": h, "bop": bop, "l": l, "r": r})
        return h

    def value(self, allow_model=False):
        """something assignable to a float argument"""
        rng = self.rng
        r = rng.random()
        if r < 0.5:
            return {"h": self.pick_prior()}
        if r < 0.7:
            return _finite(rng)
        if r < 0.82 and self.allow_arith:
            return {"h": self.arith_expr()}
        return None  # default from config

    def model(self, cls=None, depth=0):
        rng = self.rng
        cls = cls or rng.choice(["P1", "P2", "P2", "P3", "P3", "T2", "Nest", "Deep", "Mode", "P0", "Idx"] + (["T12"] if self.allow_tuple and rng.random() < 0.3 else []))
        if cls in TUPLES and not self.allow_tuple:
            cls = "P2"
        h = self.fresh("m")
        kw = {}
        for a in CLS_ARGS[cls]:
            v = self.value()
            if v is not None:
                kw[a] = v
        if cls == "Nest" and rng.random() < 0.6:
            kw["inner"] = {"h": self.model("P2", depth + 1)}
        if cls == "Deep":
            if rng.random() < 0.5:
                kw["left"] = {"h": self.model("Nest", depth + 1)}
            if rng.random() < 0.5:
                kw["right"] = {"h": self.model("P1", depth + 1)}
        self.prog.append({"op": "model", "h": h, "cls": cls, "kw": kw})
        if cls in TUPLES and TUPLES[cls][1] <= 4 and rng.random() < 0.25:
            # a hand-made tuple parameter whose members are given in another order than their positions
            name, n = TUPLES[cls]
            members = [[i, ({"h": self.pick_prior()} if rng.random() < 0.6 else _finite(rng))] for i in range(n)]
            rng.shuffle(members)
            self.prog.append({"op": "tuple_made", "h": h, "name": name, "members": members})
        elif cls in TUPLES:
            name, n = TUPLES[cls]
            for i in range(n):
                r = rng.random()
                if r < 0.25:
                    self.prog.append({"op": "set", "h": h, "path": [f"{name}_{i}"], "value": {"h": self.pick_prior()}})
                elif r < 0.35:
                    self.prog.append({"op": "set", "h": h, "path": [f"{name}_{i}"], "value": _finite(rng)})
        if self.allow_extra and rng.random() < 0.2:
            r = rng.random()
            self.prog.append({"op": "set", "h": h, "path": ["extra"], "value": _finite(rng)})
        return h

    def component(self, depth=0):
        rng = self.rng
        r = rng.random()
        if r < 0.7 or depth >= 2:
            return self.model(depth=depth)
        if r < 0.78 and self.allow_array:
            h = self.fresh("a")
            shape = rng.choice([[2], [3], [2, 2], [1, 3]])
            if self.allow_unordered_array and rng.random() < 0.3:
                # an empty array filled entry by entry, not in index order (every entry its own parameter or a constant)
                self.prog.append({"op": "array", "h": h, "shape": shape, "prior": None})
                import itertools
                idxs = [list(t) for t in itertools.product(*[range(n_) for n_ in shape])]
                rng.shuffle(idxs)
                all_free = rng.random() < 0.6
                for idx in idxs:
                    self.prog.append({"op": "array_set", "h": h, "index": idx,
                                      "value": {"h": self.new_prior()} if all_free or rng.random() < 0.7 else _finite(rng)})
                return h
            self.prog.append({"op": "array", "h": h, "shape": shape, "prior": {"h": self.pick_prior()}})
            if rng.random() < 0.5:
                idx = [rng.randrange(s) for s in shape]
                self.prog.append({"op": "array_set", "h": h, "index": idx, "value": _finite(rng) if rng.random() < 0.5 else {"h": self.pick_prior()}})
            return h
        return self.collection(depth + 1)

    def collection(self, depth=0):
        rng = self.rng
        big = depth == 0 and rng.random() < 0.06
        if big:
            # a long list-built collection: positions 10, 11 ... sort before 2 as strings
            items = [self.model(rng.choice(["P1", "P1", "P2"]), depth + 2) for _ in range(rng.randint(11, 13))]
        else:
            n = rng.randint(1, 3)
            items = [self.component(depth) for _ in range(n)]
        h = self.fresh("c")
        form = rng.choice(["list", "append"]) if big else rng.choice(["list", "dict", "kw", "append"])
        if rng.random() < 0.2:
            # a prior or a constant held directly by the collection
            items.append(self.pick_prior() if rng.random() < 0.7 else None)
        refs = [({"h": i} if i is not None else _finite(rng)) for i in items]
        if self.allow_copy and not big and rng.random() < 0.08:
            # a copy of a component next to the original: priors of equal id are one parameter ("two copies of
            # a model in a collection have the same prior count as a single model")
            cands = [i for i in items if isinstance(i, str) and i.startswith("m")]
            if cands:
                hc = self.fresh("m")
                self.prog.append({"op": "copy", "h": hc, "src": rng.choice(cands)})
                refs.insert(rng.randint(0, len(refs)), {"h": hc})
        if self.allow_fixed_obj and not big and rng.random() < 0.12:
            # a component fixed to an instance of a user class (as after `model.lens = result.instance.lens`)
            cls = rng.choice(["P1", "P2", "P3", "Lst", "ModelInstance"])
            if cls == "ModelInstance":
                # the instance of an earlier fit passed on whole (`first=result.instance`): a ModelInstance holding
                # instances of user classes and numbers
                kw = {"g": {"obj": "P2", "kw": {a: _finite(rng) for a in CLS_ARGS["P2"]}}, "level": _finite(rng)}
                if rng.random() < 0.5:
                    kw["h"] = {"obj": "P1", "kw": {"a": _finite(rng)}}
            elif cls == "Lst":
                # a list long enough for positions 10, 11 ... to sort before 2 as strings
                kw = {"values": [round(rng.uniform(-9, 9), 3) for _ in range(rng.choice([2, 11, 12, 13]))], "k": _finite(rng)}
            else:
                kw = {a: _finite(rng) for a in CLS_ARGS[cls]}
            refs.insert(rng.randint(0, len(refs)), {"obj": cls, "kw": kw})
        if form == "list":
            self.prog.append({"op": "coll_list", "h": h, "items": refs})
        elif form == "append":
            self.prog.append({"op": "coll_list", "h": h, "items": []})
            for r_ in refs:
                self.prog.append({"op": "append", "h": h, "item": r_})
        if form in ("list", "append") and not big and rng.random() < 0.15:
            # a list-built collection that later gains a named member (its counter of appended items is then
            # not its length)
            self.prog.append({"op": "set", "h": h, "path": [rng.choice(["extra", "named_b", "z9"])],
                              "value": {"h": self.pick_prior()} if rng.random() < 0.6 else _finite(rng)})
        elif form == "dict" and rng.random() < 0.25:
            # members named by digit strings that are not their positions (ids, sparse or shuffled numbers)
            names = [str(k) for k in rng.sample(range(0, len(refs) + 3), len(refs))]
            self.prog.append({"op": "coll_dict", "h": h, "items": dict(zip(names, refs))})
        else:
            names = [f"{rng.choice(['g', 'x', 'comp', 'z_a'])}{j}" for j in range(len(refs))]
            self.prog.append({"op": "coll_dict" if form == "dict" else "coll_kw", "h": h, "items": dict(zip(names, refs))})
        return h


def gen_program(rng, **kw):
    g = Gen(rng, **kw)
    # create some priors up-front in an order unrelated to use
    for _ in range(rng.randint(0, 3)):
        g.new_prior()
    rng.shuffle(g.pool)
    r = rng.random()
    if r < 0.25:
        root = g.model()
    else:
        root = g.collection()
    g.prog.append({"op": "root", "h": root})
    return g.prog


# ---------------------------------------------------------------------------------------------


def _mk_prior(kind, args):
    if kind == "U":
        return af.UniformPrior(lower_limit=args[0], upper_limit=args[1])
    if kind == "LU":
        return af.LogUniformPrior(lower_limit=args[0], upper_limit=args[1])
    if kind == "G":
        return af.GaussianPrior(*args)
    if kind == "LG":
        return af.LogGaussianPrior(*args)
    raise ValueError(kind)


def _walk_to(obj, path):
    for k in path:
        if isinstance(k, int):
            obj = obj[k]
        else:
            obj = getattr(obj, k)
    return obj


def run_program(prog, upto=None):
    """Execute on the real library; returns the handle table"""
    H = {}

    def val(v):
        if isinstance(v, dict):
            if "h" in v:
                o = H[v["h"]]
                if "path" in v:
                    o = _walk_to(o, v["path"])
                return o
            if "obj" in v:
                if v["obj"] == "ModelInstance":
                    # made the way a fit makes it (`result.instance`): the instance of a collection of fixed components
                    # (it carries that collection's id; a hand-made `af.ModelInstance({...})` has id None and cannot be
                    # hashed - DESIGN A.6)
                    return af.Collection(**{k_: val(x_) for k_, x_ in v["kw"].items()}).instance_from_vector([])
                return vlib.CLASSES[v["obj"]](**{k_: val(x_) for k_, x_ in v["kw"].items()})
            raise ValueError(v)
        return v

    for st in prog[: upto if upto is not None else len(prog)]:
        op = st["op"]
        if op == "prior":
            H[st["h"]] = _mk_prior(st["kind"], st["args"])
        elif op == "model":
            H[st["h"]] = af.Model(vlib.CLASSES[st["cls"]], **{k: val(v) for k, v in st["kw"].items()})
        elif op == "copy":
            H[st["h"]] = H[st["src"]].copy()
        elif op == "coll_list":
            H[st["h"]] = af.Collection([val(v) for v in st["items"]])
        elif op == "coll_dict":
            H[st["h"]] = af.Collection({k: val(v) for k, v in st["items"].items()})
        elif op == "coll_kw":
            H[st["h"]] = af.Collection(**{k: val(v) for k, v in st["items"].items()})
        elif op == "append":
            H[st["h"]].append(val(st["item"]))
        elif op == "set":
            tgt = _walk_to(H[st["h"]], st["path"][:-1])
            setattr(tgt, st["path"][-1], val(st["value"]))
        elif op == "tuple_made":
            setattr(H[st["h"]], st["name"], af.TuplePrior(**{f"{st['name']}_{i}": val(v) for i, v in st["members"]}))
        elif op == "arith":
            # operands are held in a list so that `retrieve_name` sees no caller variable
            ops = [val(st["l"]), val(st["r"])]
            H[st["h"]] = BINOPS[st["bop"]](ops[0], ops[1])
        elif op == "modif":
            ops = [val(st["x"])]
            H[st["h"]] = UNOPS[st["uop"]](ops[0])
        elif op == "array":
            H[st["h"]] = af.Array(tuple(st["shape"]), val(st["prior"])) if st.get("prior") is not None else af.Array(tuple(st["shape"]))
        elif op == "array_set":
            H[st["h"]][tuple(st["index"])] = val(st["value"])
        elif op == "assert":
            tgt = _walk_to(H[st["h"]], st.get("path", []))
            tgt.add_assertion(build_assert(st["expr"], val))
        elif op == "root":
            H["root"] = H[st["h"]]
        else:
            raise ValueError(op)
    return H


CMP = {"<": operator.lt, "<=": operator.le, ">": operator.gt, ">=": operator.ge}


def build_assert(e, val):
    """assertion expressions: {"lit": bool} or a left-nested chain
    {"ops": [op0, op1, ...], "operands": [o0, o1, o2, ...]} meaning ((o0 op0 o1) op1 o2) ..."""
    if "lit" in e:
        return bool(e["lit"])
    vals = [val(o) for o in e["operands"]]
    r = CMP[e["ops"][0]](vals[0], vals[1])
    for k in range(1, len(e["ops"])):
        r = CMP[e["ops"][k]](r, vals[k + 1])
    return r


def program_text(prog):
    return "; ".join(_stmt_text(s) for s in prog)


def _stmt_text(s):
    return " ".join(f"{k}={v}" for k, v in s.items())
