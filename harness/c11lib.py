"""User-level classes for the C11 check: a deterministic scripted search (its samples are a pure
function of its settings, the model and the analysis, so the directory route and the database
route can be given *the same fit*), and small analyses that save attributes / can crash mid-fit.

Importable as module `c11lib` (harness/ is on sys.path), which is what `search.json` records as the
class path of the search, so the scraper can read it back like any other search."""
import random

import numpy as np

import autofit as af
from autofit.non_linear.samples import Sample
from autofit.non_linear.samples.samples import Samples
from autofit.non_linear.samples.nest import SamplesNest
from autofit.non_linear.search.abstract_search import NonLinearSearch


class Crash(Exception):
    """raised by a scripted search to simulate a run killed part-way"""


# fits started since the harness last reset it (lets one cell of a grid search crash)
FIT_COUNTER = [0]


class ScriptedSearch(NonLinearSearch):
    __identifier_fields__ = ("script_seed", "n_points", "kind")

    def __init__(
        self,
        name=None,
        path_prefix=None,
        unique_tag=None,
        script_seed=0,
        n_points=4,
        kind="mle",
        crash_after=None,
        crash_at_fit=None,
        ties=False,
        iterations_per_update=None,
        number_of_cores=1,
        session=None,
        **kwargs,
    ):
        self.script_seed = script_seed
        self.n_points = n_points
        self.kind = kind
        self.crash_after = crash_after
        self.crash_at_fit = crash_at_fit
        self.ties = ties
        super().__init__(
            name=name,
            path_prefix=path_prefix,
            unique_tag=unique_tag,
            iterations_per_update=iterations_per_update,
            number_of_cores=number_of_cores,
            session=session,
            **kwargs,
        )

    @property
    def _class_config(self):
        return {
            "search": {},
            "run": {},
            "initialize": {"method": "prior"},
            "parallel": {"number_of_cores": 1},
            "printing": {"silence": True},
            "updates": {"iterations_per_update": 500, "remove_state_files_at_end": True},
        }

    @property
    def config_dict_search(self):
        return {}

    @property
    def config_dict_run(self):
        return {}

    def plot_results(self, samples):
        pass

    # -- the script -------------------------------------------------------------------------
    def script(self, model, analysis, n=None):
        n = self.n_points if n is None else n
        rng = random.Random(f"{self.script_seed}-{model.prior_count}")
        params, lls = [], []
        for i in range(n):
            unit = [rng.random() for _ in range(model.prior_count)]
            vec = model.vector_from_unit_vector(unit, ignore_prior_limits=True)
            vec = [float(v) for v in vec]
            inst = model.instance_from_vector(vec, ignore_prior_limits=True)
            ll = float(analysis.log_likelihood_function(inst))
            if self.ties and i % 2 == 1:
                # a tie with the previous point: equal likelihood, different parameters
                ll = lls[-1]
            params.append(vec)
            lls.append(ll)
        return {"parameter_lists": params, "log_likelihood_list": lls}

    def _fit(self, model, analysis):
        FIT_COUNTER[0] += 1
        if self.crash_after is not None and self.crash_at_fit in (None, FIT_COUNTER[0]):
            k = max(1, min(self.crash_after, self.n_points))
            internal = self.script(model, analysis, n=k)
            self.perform_update(model=model, analysis=analysis, during_analysis=True, search_internal=internal)
            raise Crash("scripted crash")
        return self.script(model, analysis)

    def samples_from(self, model, search_internal=None):
        params = search_internal["parameter_lists"]
        lls = search_internal["log_likelihood_list"]
        n = len(lls)
        log_prior_list = [float(sum(model.log_prior_list_from_vector(vector=v))) for v in params]
        if self.kind == "nest":
            w = [float(i + 1) for i in range(n)]
            tot = sum(w)
            weight_list = [x / tot for x in w]
        else:
            weight_list = n * [1.0]
        sample_list = Sample.from_lists(
            model=model,
            parameter_lists=params,
            log_likelihood_list=lls,
            log_prior_list=log_prior_list,
            weight_list=weight_list,
        )
        if self.kind == "nest":
            return SamplesNest(
                model=model,
                sample_list=sample_list,
                samples_info={
                    "log_evidence": float(max(lls)) - 1.5,
                    "total_samples": 10 * n,
                    "total_accepted_samples": n,
                    "time": None,
                    "number_live_points": 3,
                },
            )
        return Samples(
            model=model,
            sample_list=sample_list,
            samples_info={"total_iterations": n, "time": None},
        )


class Quad(af.Analysis):
    """likelihood = -(sum over parameters of (value - target_i)^2) / scale"""

    def __init__(self, offset=0.0, scale=1.0, attrs=None, trunc=False):
        self.offset = offset
        self.scale = scale
        self.attrs = attrs or {}
        self.trunc = trunc  # whole-number likelihoods: good fits reach exactly 0.0 (ties, a falsy maximum)

    def log_likelihood_function(self, instance):
        vals = flat_values(instance)
        ll = -sum((v - self.offset - 0.25 * i) ** 2 for i, v in enumerate(vals)) / self.scale
        if self.trunc:
            ll = float(int(ll)) + 0.0
        return ll

    def save_attributes(self, paths):
        for k, v in self.attrs.items():
            paths.save_json(k, v)


def flat_values(obj, depth=0):
    """floats of an instance in attribute order (own walker, used only by the analysis)"""
    out = []
    if isinstance(obj, (int, float, np.floating)) and not isinstance(obj, bool):
        return [float(obj)]
    if isinstance(obj, (tuple, list)):
        for x in obj:
            out += flat_values(x, depth + 1)
        return out
    if hasattr(obj, "__dict__") and depth < 6:
        for k, v in vars(obj).items():
            if k.startswith("_") or k == "id":
                continue
            out += flat_values(v, depth + 1)
    return out
