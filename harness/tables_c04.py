#!/usr/bin/env python
"""Translator part of C04: regenerate lean/AFModel/Generated/C04.lean from the repository's *current*
search classes (run by harness/run.py before every build; `extract()` is also called by the harness on
every run and compared with the compiled table).

Pure AST reading of autofit/non_linear/fitness.py and autofit/non_linear/search/**.py (works whether or
not the optional samplers are installed):

  defaults  : keyword defaults of `Fitness.__init__`
  fitness classes : `Fitness` and every class deriving from it (which `__call__` they use)
  one row per search class (a class below `NonLinearSearch`) that builds a fitness object in one of its own
  or inherited methods: the literal keyword arguments of that construction, defaults filled in.

A construction the reader does not cover (a flag that is not a literal, two different constructions in one
class, a new fitness subclass with its own `__call__`) makes this script fail: the tie is then reported broken."""
import ast
import os
import struct
import sys
from pathlib import Path

HERE = Path(__file__).resolve().parent
OUT = HERE.parent / "lean" / "AFModel" / "Generated" / "C04.lean"

FLAGS = ("fom_is_log_likelihood", "resample_figure_of_merit", "convert_to_chi_squared", "store_history")
KNOWN_CALLS = {"Fitness": "plain", "FitnessPySwarms": "pyswarms"}


class Unsupported(Exception):
    pass


def repo_root():
    return Path(os.environ.get("VERIF_REPO", "/repo"))


def bits(x: float) -> int:
    return struct.unpack("<Q", struct.pack("<d", float(x)))[0]


def base_name(b):
    if isinstance(b, ast.Name):
        return b.id
    if isinstance(b, ast.Attribute):
        return b.attr
    return None


def literal(node):
    """value of a literal keyword argument: bool / float; raises Unsupported otherwise"""
    if isinstance(node, ast.Constant) and isinstance(node.value, (bool, int, float)):
        return node.value
    if isinstance(node, ast.UnaryOp) and isinstance(node.op, (ast.USub, ast.UAdd)):
        v = literal(node.operand)
        if isinstance(v, bool):
            raise Unsupported(ast.dump(node))
        return -v if isinstance(node.op, ast.USub) else v
    if isinstance(node, ast.Attribute) and isinstance(node.value, ast.Name) and node.value.id in ("np", "numpy", "math"):
        if node.attr in ("inf", "infty", "Inf", "PINF"):
            return float("inf")
        if node.attr == "NINF":
            return float("-inf")
        if node.attr in ("nan", "NaN", "NAN"):
            return float("nan")
    if (isinstance(node, ast.Call) and isinstance(node.func, ast.Name) and node.func.id == "float" and len(node.args) == 1
            and isinstance(node.args[0], ast.Constant) and isinstance(node.args[0].value, str)):
        return float(node.args[0].value)
    raise Unsupported(ast.dump(node))


def fitness_defaults(root: Path):
    tree = ast.parse((root / "autofit/non_linear/fitness.py").read_text())
    for c in ast.walk(tree):
        if isinstance(c, ast.ClassDef) and c.name == "Fitness":
            for f in c.body:
                if isinstance(f, ast.FunctionDef) and f.name == "__init__":
                    names = [a.arg for a in f.args.args]
                    defaults = dict(zip(names[len(names) - len(f.args.defaults):], f.args.defaults))
                    out = {}
                    for k in FLAGS:
                        if k not in defaults:
                            raise Unsupported(f"Fitness.__init__ has no default for {k}")
                        out[k] = literal(defaults[k])
                    out["positional"] = names[1:]
                    return out
    raise Unsupported("class Fitness / __init__ not found")


def classes_under(root: Path, rel: str):
    """name -> {bases, file, methods: {name: FunctionDef}} for every class below `rel`"""
    out = {}
    files = [root / rel] if (root / rel).is_file() else sorted((root / rel).rglob("*.py"))
    for f in files:
        try:
            tree = ast.parse(f.read_text())
        except SyntaxError as e:
            raise Unsupported(f"{f}: {e}")
        for c in ast.walk(tree):
            if isinstance(c, ast.ClassDef):
                if c.name in out:
                    raise Unsupported(f"two classes named {c.name} ({out[c.name]['file']}, {f.relative_to(root)})")
                out[c.name] = {
                    "bases": [b for b in map(base_name, c.bases) if b],
                    "file": str(f.relative_to(root)),
                    "methods": {m.name: m for m in c.body if isinstance(m, (ast.FunctionDef, ast.AsyncFunctionDef))},
                }
    return out


def ancestry(classes, name, seen=None):
    """the class and its ancestors in base order (depth first, as far as they are defined below non_linear)"""
    seen = seen if seen is not None else []
    if name in seen or name not in classes:
        return seen
    seen.append(name)
    for b in classes[name]["bases"]:
        ancestry(classes, b, seen)
    return seen


def extract(root: Path = None):
    root = Path(root) if root else repo_root()
    defaults = fitness_defaults(root)
    classes = classes_under(root, "autofit/non_linear/fitness.py")
    classes.update(classes_under(root, "autofit/non_linear/search"))
    # fitness classes and the __call__ each one ends up with
    fit_kind = {}
    for name in classes:
        anc = ancestry(classes, name)
        if "Fitness" not in anc or not classes[name]["file"].startswith(("autofit/non_linear/fitness.py", "autofit/non_linear/search")):
            continue
        caller = next(a for a in anc if "__call__" in classes[a]["methods"])
        if caller not in KNOWN_CALLS:
            raise Unsupported(f"fitness class {name} uses {caller}.__call__, which the model does not cover")
        fit_kind[name] = KNOWN_CALLS[caller]
    # constructions per class
    built = {}
    for name, c in classes.items():
        if not c["file"].startswith("autofit/non_linear/search"):
            continue
        found = []
        for mname, m in c["methods"].items():
            for call in ast.walk(m):
                if isinstance(call, ast.Call) and base_name(call.func) in fit_kind:
                    found.append((mname, call))
        if not found:
            continue
        rows = []
        for mname, call in found:
            kw = {k.arg: k.value for k in call.keywords}
            # a flag given through a local name that is assigned exactly once in the method: read the assigned value
            assigned = {}
            for st in ast.walk(c["methods"][mname]):
                if isinstance(st, ast.Assign) and len(st.targets) == 1 and isinstance(st.targets[0], ast.Name):
                    assigned.setdefault(st.targets[0].id, []).append(st.value)
                elif isinstance(st, (ast.AugAssign, ast.AnnAssign)) and isinstance(st.target, ast.Name):
                    assigned.setdefault(st.target.id, []).extend([None, None])
            for k, v in list(kw.items()):
                if isinstance(v, ast.Name) and len(assigned.get(v.id, [])) == 1:
                    kw[k] = assigned[v.id][0]
            if None in kw:
                raise Unsupported(f"{name}.{mname}: **kwargs in a fitness construction")
            for pos, a in zip(defaults["positional"], call.args):
                kw[pos] = a
            row = {"method": mname, "fitness_class": fit_kind[base_name(call.func)], "passes_paths": "paths" in kw
                   and not (isinstance(kw["paths"], ast.Constant) and kw["paths"].value is None)}
            for k in ("fom_is_log_likelihood", "convert_to_chi_squared"):
                v = literal(kw[k]) if k in kw else defaults[k]
                if not isinstance(v, bool):
                    raise Unsupported(f"{name}.{mname}: {k} is not a boolean literal")
                row[k] = v
            v = literal(kw["resample_figure_of_merit"]) if "resample_figure_of_merit" in kw else defaults["resample_figure_of_merit"]
            if isinstance(v, bool):
                raise Unsupported(f"{name}.{mname}: resample_figure_of_merit is a boolean")
            row["resample"] = float(v)
            if "store_history" in kw:
                try:
                    h = literal(kw["store_history"])
                    if not isinstance(h, bool):
                        raise Unsupported(f"{name}.{mname}: store_history is not a boolean literal")
                    row["history"] = "on" if h else "off"
                except Unsupported:
                    row["history"] = "dynamic"
            else:
                row["history"] = "on" if defaults["store_history"] else "off"
            rows.append(row)
        first = rows[0]
        for r in rows[1:]:
            if {k: v for k, v in r.items() if k != "method"} != {k: v for k, v in first.items() if k != "method"} and not (
                    r["resample"] != r["resample"] and first["resample"] != first["resample"]):
                raise Unsupported(f"{name}: two different fitness constructions")
        built[name] = first
    # one row per search class
    out = []
    for name, c in sorted(classes.items()):
        if not c["file"].startswith("autofit/non_linear/search"):
            continue
        anc = ancestry(classes, name)
        if "NonLinearSearch" not in anc or name == "NonLinearSearch":
            continue
        owner = next((a for a in anc if a in built), None)
        if owner is None:
            continue
        parts = Path(c["file"]).parts
        family = parts[parts.index("search") + 1]
        if family not in ("nest", "mcmc", "mle"):
            raise Unsupported(f"{name}: search family {family}")
        b = built[owner]
        out.append({"name": name, "family": family, "owner": owner, "fitness_class": b["fitness_class"],
                    "fom_is_log_likelihood": b["fom_is_log_likelihood"], "convert_to_chi_squared": b["convert_to_chi_squared"],
                    "history": b["history"], "resample_bits": "%016x" % bits(b["resample"]), "passes_paths": b["passes_paths"]})
    if not out:
        raise Unsupported("no search class builds a fitness object")
    return {"defaults": {k: (defaults[k] if isinstance(defaults[k], bool) else "%016x" % bits(defaults[k])) for k in FLAGS}, "rows": out}


def q(s):
    assert '"' not in s and "\\" not in s, s
    return '"' + s + '"'


def lb(b):
    return "true" if b else "false"


def render(table) -> str:
    lines = ["-- generated by harness/tables_c04.py from the repository's working tree; do not edit",
             "import AFModel.SearchTable", "", "namespace AF.Generated.C04", "open AF", "",
             "/-- one row per search class of autofit/non_linear/search: the fitness object its `_fit` builds -/",
             "def searchRows : List SearchRow := ["]
    rows = []
    for r in table["rows"]:
        rows.append(
            f'  {{ name := {q(r["name"])}, family := .{r["family"]}, owner := {q(r["owner"])}, fitnessClass := .{r["fitness_class"]},\n'
            f'    fomIsLL := {lb(r["fom_is_log_likelihood"])}, convertChi := {lb(r["convert_to_chi_squared"])}, history := .{r["history"]},\n'
            f'    resampleBits := 0x{r["resample_bits"]}, passesPaths := {lb(r["passes_paths"])} }}')
    lines.append(",\n".join(rows) + "]")
    d = table["defaults"]
    lines += ["", "/-- keyword defaults of `Fitness.__init__` -/",
              f'def defaultRow : SearchRow :=\n  {{ name := "Fitness", family := .nest, owner := "Fitness", fitnessClass := .plain,\n'
              f'    fomIsLL := {lb(d["fom_is_log_likelihood"])}, convertChi := {lb(d["convert_to_chi_squared"])}, '
              f'history := .{"on" if d["store_history"] else "off"},\n    resampleBits := 0x{d["resample_figure_of_merit"]}, passesPaths := false }}',
              "", "end AF.Generated.C04", ""]
    return "\n".join(lines)


def main():
    try:
        table = extract()
    except Unsupported as e:
        print(f"tables_c04: the search classes cannot be read into the table: {e}", file=sys.stderr)
        sys.exit(1)
    text = render(table)
    if not OUT.exists() or OUT.read_text() != text:
        OUT.parent.mkdir(parents=True, exist_ok=True)
        OUT.write_text(text)
    print(f"tables_c04: {len(table['rows'])} search classes")


if __name__ == "__main__":
    main()
