"""C11 — loading an output directory into a database loses nothing.

A generated *program* (a list of runs: single fits, grid searches, fits with combined analyses,
crashed runs; each stored as folder, archive or both) is executed twice on the real library:
into a scratch output tree (then `Aggregator.from_database(f).add_directory(tree)`) and through
`session=` (the database route). Compared:

  T_real  = own abstraction of the tree on disk (own walker / zip reader / csv reader; file contents
            parsed with the library's `from_dict` + `Identifier`, which are C07/C08's subject)
  Lean `layout(runs)`            vs T_real          (where the writers put what)
  Lean `scrape(T_real)`          vs the real database rows after `add_directory`
  Lean `direct(runs)`            vs the real rows written through a session
and the property sentence is evaluated directly on the real rows against what the program ran
(in-memory model, samples, info, completion, grid membership) and against the database route.

Identifiers are compared as pre-images (`".".join(hash_list)`); every md5 the tree or the database
mentions is mapped back through a table built from `.identifier` files and in-memory identifiers,
and `md5(pre-image) == name` is checked where the pre-image is known."""
import contextlib
import csv
import io
import hashlib
import json
import os
import shutil
import tempfile
import zipfile
from pathlib import Path

from common import f2h, VERIF, scratch_dir
import gen_comp
import c07
import c08
import c11lib
import c11_grow

import autofit as af
from autoconf import conf
from autoconf.dictable import from_dict, to_dict
from autofit.mapper.identifier import Identifier
from autofit.database.model import Fit

RULE = (
    "programs of 1-4 runs over {single fit, grid search (1-2 grid parameters, 2-3 steps), fit with 2-3 combined "
    "analyses, crashed fit, crashed grid cell} x models (vlib classes in Model / dict- / list-built Collection, shared "
    "priors, constants, nested, tuple members, U/G/LU priors; low-rate streams: fixed component, arithmetic prior, "
    "prior held directly by a collection) x ScriptedSearch settings (mle/nest samples, ties, 1-6 points) + real "
    "Drawer/LBFGS/(thorough: DynestyStatic, PySwarmsGlobal) x name/path_prefix/unique_tag collisions x storage "
    "{folder, archive, both, stale folder beside archive, copy of a fit elsewhere in the tree} x completed_only "
    "{False, True}; plus to_dict->json->from_dict of every search class with random identifying settings. "
    "non-trivial = the tree holds >= 2 fit directories or a grid search or an archive-only fit; distinct = hash of the program"
)

SEARCH_INFO_SKIP = ("time",)


def md5(s):
    return hashlib.md5(s.encode("utf-8")).hexdigest()


def sha(obj):
    return hashlib.sha1(json.dumps(obj, sort_keys=True, default=str).encode()).hexdigest()[:12]


# ---------------------------------------------------------------------------------------------
# generator


def gen_model_prog(rng, feature=None, need_uniform=2):
    """a gen_comp-compatible program; every constructor argument is given explicitly"""
    prog, pool, k = [], [], [0]

    def fresh(p):
        k[0] += 1
        return f"{p}{k[0]}"

    def new_prior(kind=None):
        h = fresh("p")
        kind = kind or rng.choices(["U", "G", "LU"], weights=[6, 2, 1])[0]
        if kind == "U":
            lo = rng.choice([0.0, -1.0, 2.5, -10.0, 0.125]) + rng.randint(0, 3)
            args = [lo, lo + rng.choice([1.0, 2.0, 0.5, 10.0])]
        elif kind == "G":
            args = [float(rng.randint(-3, 3)) + rng.choice([0.0, 0.5]), rng.choice([0.5, 1.0, 2.0])]
        else:
            lo = rng.choice([1e-3, 0.1, 1.0])
            args = [lo, lo * rng.choice([10.0, 100.0])]
        prog.append({"op": "prior", "h": h, "kind": kind, "args": args})
        pool.append(h)
        return h

    for _ in range(need_uniform):
        new_prior("U")
    rng.shuffle(pool)
    unused = list(pool)

    def value():
        r = rng.random()
        if unused:
            return {"h": unused.pop()}
        if r < 0.2 and pool:
            return {"h": rng.choice(pool)}  # shared
        if r < 0.38:
            return rng.choice([0.0, 1.0, -2.5, 0.75, 3.0])
        return {"h": new_prior()}

    def model(cls=None):
        cls = cls or rng.choice(["P1", "P2", "P2", "P3", "Nest", "T2"])
        h = fresh("m")
        kw = {a: value() for a in gen_comp.CLS_ARGS[cls]}
        if cls in ("P1", "P2", "P3") and all(not isinstance(v, dict) for v in kw.values()):
            kw[gen_comp.CLS_ARGS[cls][0]] = {"h": new_prior()}  # no component without free parameters here
        if cls == "Nest":
            kw["inner"] = {"h": model("P2")}
        prog.append({"op": "model", "h": h, "cls": cls, "kw": kw})
        if cls == "T2":
            for i in range(2):
                prog.append({"op": "set", "h": h, "path": [f"pos_{i}"], "value": value()})
        return h

    root_kind = rng.choices(["model", "dict", "list"], weights=[3, 4, 3])[0]
    if feature in ("fixed", "mixed"):
        root_kind = rng.choice(["dict", "list"])
    if feature == "depth":
        root_kind = "model"
    if root_kind == "model":
        # a root model with a nested component or a tuple has parameters at different depths
        root = model(rng.choice(["Nest", "T2"]) if feature == "depth" else rng.choice(["P1", "P2", "P3"]))
    else:
        items = [{"h": model()} for _ in range(rng.randint(1, 3))]
        if feature == "fixed":
            h = fresh("m")
            prog.append({"op": "model", "h": h, "cls": "P2", "kw": {"a": 1.5, "b": -0.5}})
            items.append({"h": h})
        if feature == "mixed":
            items.append({"h": new_prior("U")})
        root = fresh("c")
        if root_kind == "list":
            prog.append({"op": "coll_list", "h": root, "items": items})
        else:
            names = [f"{rng.choice(['g', 'x', 'comp'])}{j}" for j in range(len(items))]
            prog.append({"op": "coll_dict", "h": root, "items": dict(zip(names, items))})
    if feature == "arith":
        e = fresh("e")
        prog.append({"op": "arith", "h": e, "bop": rng.choice(["add", "mul"]), "l": {"h": pool[0]}, "r": rng.choice([2.0, {"h": pool[-1]}])})
        # hang it on the first model of the program
        first = next(s for s in prog if s["op"] == "model")
        arg = gen_comp.CLS_ARGS[first["cls"]][0]
        prog.append({"op": "set", "h": first["h"], "path": [arg], "value": {"h": e}})
    # priors that ended unused would not be parameters: drop nothing, they are simply not in the model
    prog.append({"op": "root", "h": root})
    return prog


NAMES = ["fit", "s", "run_a", "deep/name"]
PREFIXES = [None, None, "pre", "a/b"]
TAGS = [None, "tag", "ds1", None]


def gen_sspec(rng, uid, real=None):
    base = {
        "name": rng.choice(NAMES),
        "path_prefix": rng.choice(PREFIXES),
        "unique_tag": rng.choice(TAGS),
    }
    if real:
        kw = {
            "Drawer": {"total_draws": rng.randint(3, 6)},
            "LBFGS": {},
            "BFGS": {},
            "DynestyStatic": {"nlive": 20, "maxcall": 150},
            "PySwarmsGlobal": {"n_particles": 4, "iters": 3},
        }[real]
        return dict(base, cls=real, kw=kw)
    return dict(
        base,
        cls="Scripted",
        script_seed=uid,
        n_points=rng.randint(1, 6),
        kind=rng.choice(["mle", "mle", "nest"]),
        ties=rng.random() < 0.3,
        save_all=rng.random() < 0.4,
    )


def gen_info(rng):
    r = rng.random()
    if r < 0.3:
        return None
    d = {}
    for key in rng.sample(["dataset", "redshift", "idx", "note", "z_1"], rng.randint(1, 3)):
        d[key] = rng.choice(["x", "slacs0946", 1, 7, 0.5, 2.25, "a b", 0, 0.0, False, ""])  # falsy values are values
    return d


def gen_attrs(rng):
    if rng.random() < 0.5:
        return {}
    return {rng.choice(["data", "settings.mask"]): rng.choice([[1, 2, 3], {"a": 1.5}, [0.25]])}


def gen_case(rng, uid0, real=None):
    n_runs = rng.choices([1, 2, 3, 4], weights=[2, 4, 3, 1])[0]
    runs = []
    feature = None
    r = rng.random()
    if r < 0.06:
        feature = "fixed"
    elif r < 0.12:
        feature = "arith"
    elif r < 0.15:
        feature = "mixed"
    elif r < 0.19:
        feature = "depth"
    shared_place = rng.random() < 0.4  # all runs in the same name/prefix/tag
    place = None
    for i in range(n_runs):
        uid = uid0 * 10 + i
        kind = rng.choices(["single", "grid", "combined", "crash", "gridcrash"], weights=[8, 4, 2, 2, 1])[0]
        if real and i == 0:
            kind = "single"
        ss = gen_sspec(rng, uid, real if i == 0 else None)
        if shared_place:
            if place is None:
                place = {k: ss[k] for k in ("name", "path_prefix", "unique_tag")}
            ss.update(place)
        run = {
            "k": kind,
            "search": ss,
            "model": gen_model_prog(rng, feature if i == 0 else None),
            "analysis": {"offset": rng.choice([0.0, 0.5, -1.0]), "scale": rng.choice([1.0, 4.0]), "attrs": gen_attrs(rng),
                         "trunc": rng.random() < 0.3},
            "info": gen_info(rng),
            "store": rng.choices(["both", "zip", "folder", "stale"], weights=[4, 3, 2, 1])[0],
        }
        if kind == "crash":
            ss["crash_after"] = rng.randint(1, 3)
        if kind in ("grid", "gridcrash"):
            # whole-number likelihoods in most grids: cells tie, and the best cell is often exactly 0.0
            run["analysis"]["trunc"] = rng.random() < 0.7
            if run["analysis"]["trunc"]:
                run["analysis"]["scale"] = rng.choice([1.0, 4.0, 50.0, 400.0])  # (some cells reach 0, others do not)
            run["steps"] = rng.choice([2, 2, 3])
            run["dims"] = rng.choice([1, 1, 2])
            if run["dims"] == 2:
                run["steps"] = 2
            run["cell_store"] = [rng.choice(["both", "zip", "folder"]) for _ in range(9)]
            if kind == "gridcrash":
                run["crash_at_fit"] = rng.randint(1, run["steps"] ** run["dims"])
                ss["crash_after"] = rng.randint(1, 2)
        if kind == "combined":
            run["n_analyses"] = rng.choice([2, 3, 2, 3, 11, 12])  # (two-digit child indices)
            run["analysis"]["attrs"] = {"data": [1, 2]}
        runs.append(run)
    case = {"runs": runs}
    if rng.random() < 0.15:
        case["copy"] = {"run": rng.randrange(n_runs), "to": rng.choice(["backup", "zz/old"])}
    if rng.random() < 0.25:
        # the directory of one fit is added to the same database a second time (from another place)
        case["again"] = {"run": rng.randrange(n_runs)}
    return case


# ---------------------------------------------------------------------------------------------
# executing a program on the real library


def mk_search(ss, session=None):
    common = dict(name=ss["name"], path_prefix=ss["path_prefix"], unique_tag=ss["unique_tag"])
    if session is not None:
        common["session"] = session
    if ss["cls"] == "Scripted":
        kw = dict(script_seed=ss["script_seed"], n_points=ss["n_points"], kind=ss["kind"], ties=ss["ties"],
                  crash_after=ss.get("crash_after"))
        if ss.get("crash_at_fit") is not None:
            kw["crash_at_fit"] = ss["crash_at_fit"]
        if ss.get("save_all"):
            kw["save_all_samples"] = True
        return c11lib.ScriptedSearch(**common, **kw)
    return getattr(af, ss["cls"])(**common, **ss["kw"])


def mk_analysis(run):
    a = run["analysis"]
    if run["k"] == "combined":
        parts = [c11lib.Quad(offset=a["offset"] + 0.5 * i, scale=a["scale"], attrs={k: [v, i] for k, v in a["attrs"].items()}, trunc=a.get("trunc", False))
                 for i in range(run["n_analyses"])]
        out = parts[0]
        for p in parts[1:]:
            out = out + p
        return out
    return c11lib.Quad(offset=a["offset"], scale=a["scale"], attrs=a["attrs"], trunc=a.get("trunc", False))


def mem_samples(samples):
    """rows of a Samples object held in memory: [ll, lp, post, w, params]"""
    rows = []
    for s, params in zip(samples.sample_list, samples.parameter_lists):
        rows.append([float(s.log_likelihood), float(s.log_prior), float(s.log_likelihood + s.log_prior), float(s.weight),
                     [float(p) for p in params]])
    return rows


def scripted_samples(ss, model, run, n=None):
    """the samples a scripted search produces for `model` (a pure function of its settings)"""
    if ss["cls"] != "Scripted":
        return None
    s = c11lib.ScriptedSearch(script_seed=ss["script_seed"], n_points=ss["n_points"], kind=ss["kind"], ties=ss["ties"])
    a = run["analysis"]
    analysis = c11lib.Quad(offset=a["offset"], scale=a["scale"], trunc=a.get("trunc", False))
    if n is not None:
        n = max(1, min(n, ss["n_points"]))
    return s.samples_from(model, s.script(model, analysis, n=n))


def grid_priors_of(model, dims):
    us = [p for p in model.priors_ordered_by_id if isinstance(p, af.UniformPrior)]
    return us[:dims]


def execute(case, root: Path, session=None):
    """run the program; returns one record per run (what the *program* knows, independent of the
    scraper): identifiers, in-memory tokens, model, samples of the result, completion"""
    conf.instance.output_path = str(root)
    records = []
    for run in case["runs"]:
        ss = dict(run["search"])
        model = gen_comp.run_program(run["model"])["root"]
        rec = {"run": run, "ok": True, "cells": []}
        records.append(rec)
        c11lib.FIT_COUNTER[0] = 0
        try:
            if run["k"] in ("grid", "gridcrash"):
                ss["crash_at_fit"] = run.get("crash_at_fit")
                search = mk_search(ss, session)
                gs = af.SearchGridSearch(search=search, number_of_steps=run["steps"])
                gps = grid_priors_of(model, run["dims"])
                rec["grid_priors"] = len(gps)
                rec["model"] = model
                # what identifies the grid: [grid search object, model, tag]
                gs.paths.model = model
                gs.paths.search = gs
                gs.paths.unique_tag = search.unique_tag
                rec["ident_tokens"] = list(gs.paths._identifier.hash_list)
                rec["identifier"] = gs.paths.identifier
                rec["search_tokens"] = list(Identifier(search).hash_list)
                # the cells, recomputed by the harness (same order as the jobs)
                sorted_gps = model.sort_priors_alphabetically(set(gps))
                for values in gs.make_lists(sorted_gps):
                    arguments = gs.make_arguments(values, sorted_gps)
                    cm = model.mapper_from_partial_prior_arguments(arguments)
                    labels = []
                    for prior in sorted(arguments.values(), key=lambda pr: pr.id):
                        labels.append("{}_{:.2f}_{:.2f}".format(cm.name_for_prior(prior), prior.lower_limit, prior.upper_limit))
                    rec["cells"].append({"label": "_".join(labels), "model": cm, "done": False, "complete": False, "samples": None})
                try:
                    res = gs.fit(model=model, analysis=mk_analysis(run), grid_priors=gps, info=run["info"])
                    rec["complete"] = True
                    for cell in rec["cells"]:
                        cell.update(done=True, complete=True, samples=scripted_samples(ss, cell["model"], run))
                except c11lib.Crash:
                    rec["complete"] = False
                    k = run["crash_at_fit"]
                    for i, cell in enumerate(rec["cells"]):
                        if i < k - 1:
                            cell.update(done=True, complete=True, samples=scripted_samples(ss, cell["model"], run))
                        elif i == k - 1:
                            cell.update(done=True, complete=False, samples=scripted_samples(ss, cell["model"], run, n=ss["crash_after"]))
                    if session is not None:
                        session.commit()
            else:
                search = mk_search(ss, session)
                rec["model"] = model
                tag = search.unique_tag
                rec["search_tokens"] = list(Identifier(search).hash_list)
                rec["ident_tokens"] = list(Identifier([search, model] + ([tag] if tag is not None else [])).hash_list)
                try:
                    cwd = os.getcwd()
                    os.chdir(scratch_dir())  # pyswarms writes report.log into the working directory
                    try:
                        with contextlib.redirect_stderr(io.StringIO()), contextlib.redirect_stdout(io.StringIO()):
                            result = search.fit(model, mk_analysis(run), info=run["info"])
                    finally:
                        os.chdir(cwd)
                    rec["complete"] = True
                    rec["samples"] = result.samples
                except c11lib.Crash:
                    rec["complete"] = False
                    rec["samples"] = scripted_samples(ss, model, run, n=ss["crash_after"])
                    if session is not None:
                        session.commit()
                rec["identifier"] = search.paths.identifier
                rec["output_path"] = str(search.paths.output_path)
        except Exception as e:  # the run itself failed (not a scraping matter unless on the database route)
            rec["ok"] = False
            rec["error"] = f"{type(e).__name__}: {e}"[:300]
            if session is not None:
                try:
                    session.rollback()
                except Exception:
                    pass
    return records


def apply_storage(case, records, root: Path):
    """zip/folder variants: the library leaves folder + archive; delete one of them, or age the folder"""
    for rec in records:
        if not rec["ok"]:
            continue
        run = rec["run"]
        if run["k"] in ("grid", "gridcrash"):
            gdir = find_grid_dir(root, rec["identifier"])
            if gdir is None:
                continue
            for i, cell in enumerate(rec["cells"]):
                if cell["done"] and cell["complete"]:
                    store_one(gdir / cell["label"], run["cell_store"][i % 9])
        elif rec.get("complete"):
            store_one(Path(rec["output_path"]), run["store"])
    cp = case.get("copy")
    if cp:
        rec = records[cp["run"]]
        if rec["ok"] and rec["run"]["k"] not in ("grid", "gridcrash"):
            src = Path(rec["output_path"])
            dst = root / cp["to"] / src.name
            # a copy of the fit as it is stored: its folder and / or its archive (copying only the stale folder of
            # a "stale" store would make another, unfinished fit of it)
            if src.exists():
                shutil.copytree(src, dst)
            if Path(str(src) + ".zip").exists():
                dst.parent.mkdir(parents=True, exist_ok=True)
                shutil.copy(str(src) + ".zip", str(dst) + ".zip")


def zlib_crc(text):
    import zlib
    return zlib.crc32(text.encode())


_TEMP_NAME_CACHE = {}


def temp_archive_path(folder: Path):
    """where the library's own `zip_directory` builds the archive of `folder` before it is complete (observed on a
    scratch folder of the same name, not assumed)"""
    import tempfile
    import zipfile
    import autofit.tools.util as U

    if folder.name not in _TEMP_NAME_CACHE:
        seen = []
        orig = zipfile.ZipFile.__init__

        def spy(self, file, *a, **k):
            seen.append(str(file))
            return orig(self, file, *a, **k)

        with tempfile.TemporaryDirectory() as t:
            scratch = Path(t) / folder.name
            scratch.mkdir()
            (scratch / "x").write_text("x")
            zipfile.ZipFile.__init__ = spy
            try:
                U.zip_directory(scratch)
            finally:
                zipfile.ZipFile.__init__ = orig
        _TEMP_NAME_CACHE[folder.name] = Path(seen[0]).name if seen else folder.name + ".zip.tmp"
    return folder.parent / _TEMP_NAME_CACHE[folder.name]


def store_one(folder: Path, how):
    z = Path(str(folder) + ".zip")
    if not z.exists() or not folder.exists():
        return
    if zlib_crc(folder.name) % 4 == 0 and not os.environ.get("C11_NO_TMP"):
        # what a process killed while compressing this folder once left behind: a truncated temporary archive.
        # It is not an archive of a fit; loading ignores it.
        data = z.read_bytes()
        tmp = temp_archive_path(folder)
        if tmp.name != z.name:
            tmp.write_bytes(data[: max(1, len(data) // 2)])
    if how == "zip":
        shutil.rmtree(folder)
    elif how == "folder":
        z.unlink()
    elif how == "stale":
        # the folder of an earlier, interrupted run beside the archive of the finished one
        (folder / ".completed").unlink()


def find_grid_dir(root, identifier):
    for d, dirs, files in os.walk(root):
        if Path(d).name == identifier and ".is_grid_search" in files:
            return Path(d)
    return None


# ---------------------------------------------------------------------------------------------
# the abstraction of a tree on disk


class Pre:
    """md5 -> pre-image table"""

    def __init__(self):
        self.t = {}

    def add(self, tokens):
        p = ".".join(tokens)
        self.t[md5(p)] = p
        return p

    def name(self, s):
        return self.t.get(s, s)

    def path(self, s):
        """a '/'-joined name whose components may be identifiers"""
        if s is None:
            return None
        return "/".join(self.name(c) for c in str(s).split("/"))

    def child(self, s):
        """`<id>_<i>` of a child analysis"""
        if "_" in s:
            a, b = s.rsplit("_", 1)
            if a in self.t and b.isdigit():
                return self.t[a] + "_" + b
        return self.name(s)


def model_shape(model):
    try:
        d = c08.shape_of(model)
    except Exception as e:
        return "unreadable:" + type(e).__name__
    d.pop("id_consts", None)
    return sha(d)


def info_str(v):
    """info values are stored in a text column: numbers come back as their text, booleans as 0 / 1"""
    if isinstance(v, bool):
        return str(int(v))
    return str(v)


def canon_info(d):
    if d is None:
        return None
    return sorted([str(k), info_str(v)] for k, v in d.items())


def json_token(obj):
    return sha(obj)


def read_csv_samples(path: Path):
    with open(path, newline="") as f:
        rows = list(csv.reader(f))
    headers = [h.strip() for h in rows[0]]
    special = ("log_likelihood", "log_prior", "log_posterior", "weight")
    names = [h for h in headers if h not in special]
    out = []
    for r in rows[1:]:
        d = {h: float(v) for h, v in zip(headers, r)}
        out.append([d["log_likelihood"], d["log_prior"], d["log_posterior"], d["weight"], [d[n] for n in names]])
    return names, out


def hex_rows(rows):
    return [[f2h(r[0]), f2h(r[1]), f2h(r[2]), f2h(r[3]), [f2h(x) for x in r[4]]] for r in rows]


def files_of(files_dir: Path):
    out = []
    if not files_dir.exists():
        return out
    for p in sorted(files_dir.rglob("*.json")):
        name = ".".join(p.relative_to(files_dir).with_suffix("").parts)
        try:
            out.append([name, json_token(json.loads(p.read_text()))])
        except Exception:
            out.append([name, "unreadable"])
    for p in sorted(files_dir.rglob("*.csv")):
        name = ".".join(p.relative_to(files_dir).with_suffix("").parts)
        if name in ("samples", "latent_samples"):
            continue
        out.append([name, "csv"])
    return out


def read_content(d: Path, pre: Pre, notes):
    """what the directory `d` holds, file by file (None = absent)"""
    c = {
        "metadata": (d / "metadata").exists(),
        "completed": (d / ".completed").exists(),
        "ident": None, "parent": None, "grid": None, "search": None, "model": None, "info": None,
        "samples": None, "files": [], "analyses": [],
    }
    if (d / ".identifier").exists():
        c["ident"] = (d / ".identifier").read_text().split("\n")
        pre.add(c["ident"])
    if (d / ".parent_identifier").exists():
        c["parent"] = (d / ".parent_identifier").read_text()
    if (d / ".is_grid_search").exists():
        c["grid"] = (d / ".is_grid_search").read_text()
    files = d / "files"
    if (files / "search.json").exists():
        try:
            s = from_dict(json.loads((files / "search.json").read_text()))
            c["search"] = {"name": s.name, "tag": s.unique_tag, "tokens": list(Identifier(s).hash_list)}
        except Exception as e:
            notes.append(("search.json", f"{type(e).__name__}: {e}"[:200]))
    if (files / "model.json").exists():
        try:
            m = from_dict(json.loads((files / "model.json").read_text()))
            c["model"] = {"tokens": list(Identifier(m).hash_list), "shape": model_shape(m)}
        except Exception as e:
            notes.append(("model.json", f"{type(e).__name__}: {e}"[:200]))
    if c["search"] is not None and c["model"] is not None:
        t = c["search"]["tokens"] + c["model"]["tokens"] + ([c["search"]["tag"]] if c["search"]["tag"] is not None else [])
        # Identifier([search, model, None]) adds nothing for None
        pre.add(t)
    if (files / "info.json").exists():
        c["info"] = canon_info(json.loads((files / "info.json").read_text()))
    if (files / "samples.csv").exists() and (files / "samples_info.json").exists():
        names, rows = read_csv_samples(files / "samples.csv")
        info = json.loads((files / "samples_info.json").read_text())
        c["samples"] = {"cls": info.get("class_path", ""), "rows": hex_rows(rows), "names": names}
    c["files"] = files_of(files)
    an = d / "analyses"
    if an.exists():
        for sub in sorted(an.iterdir()):
            if sub.is_dir():
                c["analyses"].append(files_of(sub / "files"))
    return c


def abstract_tree(root: Path, pre: Pre, notes):
    """slots: every directory holding `metadata` or `.is_grid_search`, every `*.zip`"""
    slots = {}
    tmp = Path(tempfile.mkdtemp(prefix="unz_", dir=scratch_dir()))
    try:
        for d, dirs, files in os.walk(root):
            dp = Path(d)
            rel = dp.relative_to(root).parts
            if "metadata" in files or ".is_grid_search" in files:
                slots.setdefault(rel, {"folder": None, "zip": None})["folder"] = read_content(dp, pre, notes)
            for fn in files:
                if fn.endswith(".zip"):
                    target = tmp / sha([d, fn])
                    with zipfile.ZipFile(dp / fn) as z:
                        z.extractall(target)
                    relz = rel + (fn[:-4],)
                    if (target / "metadata").exists() or (target / ".is_grid_search").exists():
                        slots.setdefault(relz, {"folder": None, "zip": None})["zip"] = read_content(target, pre, notes)
    finally:
        shutil.rmtree(tmp, ignore_errors=True)
    return slots


def wire_content(c, pre: Pre):
    if c is None:
        return None
    out = dict(c)
    out["parent"] = pre.name(c["parent"]) if c["parent"] is not None else None
    if c["search"] is not None:
        out["search"] = dict(c["search"], name=pre.path(c["search"]["name"]))
    if c["samples"] is not None:
        out["samples"] = {"cls": c["samples"]["cls"], "rows": c["samples"]["rows"]}
    return out


def wire_slots(slots, pre: Pre, order=None):
    keys = list(slots)
    if order is not None:
        keys.sort(key=lambda k: order.get(k, 10 ** 9))
    return [
        {"path": [pre.name(p) for p in k], "folder": wire_content(slots[k]["folder"], pre), "zip": wire_content(slots[k]["zip"], pre)}
        for k in keys
    ]


def walk_order(root: Path):
    return {Path(d).relative_to(root).parts: i for i, (d, _, _) in enumerate(os.walk(root))}


# ---------------------------------------------------------------------------------------------
# database rows, canonical


def resolve(instance, name):
    """value of the instance at a dotted parameter name (tuple members: `<attr>_<i>`)"""
    o = instance
    for part in name.split("."):
        if isinstance(o, (tuple, list)):
            o = o[int(part.rsplit("_", 1)[1])] if "_" in part else o[int(part)]
        elif part.isdigit() and not hasattr(o, part):
            o = o[int(part)]
        else:
            o = getattr(o, part)
    return float(o)


def sample_rows(samples):
    rows = []
    for s in samples.sample_list:
        rows.append([float(s.log_likelihood), float(s.log_prior), float(s.log_likelihood + s.log_prior), float(s.weight),
                     [float(v) for v in s.kwargs.values()]])
    return rows


def sample_names(samples):
    if not samples.sample_list:
        return []
    return [".".join(k) if isinstance(k, tuple) else str(k) for k in samples.sample_list[0].kwargs.keys()]


def db_rows(session, pre: Pre):
    fits = session.query(Fit).all()
    by_id = {f.id: f for f in fits}
    rows = {}
    analyses = {}
    for f in fits:
        par = by_id.get(f.parent_id) if f.parent_id is not None else None
        if par is not None and not par.is_grid_search and f.id.startswith(par.id + "_"):
            analyses.setdefault(par.id, []).append(
                {"id": f.id, "files": sorted([j.name, json_token(j.dict)] for j in f.jsons), "has_model": f.model is not None}
            )
    for f in fits:
        if any(f.id == a["id"] for lst in analyses.values() for a in lst):
            continue
        samples = f.samples
        inst = f.instance
        names = sample_names(samples) if samples is not None else []
        row = {
            "id": pre.name(f.id),
            "raw_id": f.id,
            "name": pre.path(f.name),
            "tag": f.unique_tag,
            "complete": bool(f.is_complete),
            "grid": bool(f.is_grid_search),
            "parent": pre.name(f.parent_id) if f.parent_id is not None else None,
            "model": model_shape(f.model) if f.model is not None else None,
            "info": sorted([str(k), info_str(v)] for k, v in f.info.items()),
            "samples": None if samples is None else {"cls": samples.samples_info.get("class_path", ""), "rows": hex_rows(sample_rows(samples)), "names": names},
            "max_ll": None if f.max_log_likelihood is None else f2h(f.max_log_likelihood),
            "inst": None,
            "files": sorted([j.name, json_token(j.dict)] for j in f.jsons) + sorted([a.name, "csv"] for a in f.arrays),
            "analyses": sorted(a["files"] for a in analyses.get(f.id, [])),
            "analysis_ids": sorted(a["id"] for a in analyses.get(f.id, [])),
            "children": sorted(pre.name(c.id) for c in f.children if not any(c.id == a["id"] for a in analyses.get(f.id, []))),
        }
        if inst is not None and names:
            try:
                row["inst"] = [f2h(resolve(inst, n)) for n in names]
            except Exception as e:
                row["inst"] = "unresolved:" + type(e).__name__
        rows[row["id"]] = row
    return rows


def user_view(agg, pre: Pre):
    """what `Aggregator.from_database(file)` shows: iterating fits, grid searches, children, best fit"""
    view = {"top": sorted(pre.name(f.id) for f in agg), "grids": {}}
    for g in agg.grid_searches():
        try:
            bf = g.best_fit
            best = pre.name(bf.id) if bf is not None else "none"
        except TypeError:
            best = "error"
        view["grids"][pre.name(g.id)] = {"children": sorted(pre.name(c.id) for c in g.children), "best": best}
    return view


def model_rows(ans):
    rows = {}
    for r in ans["rows"]:
        rows.setdefault(r["id"], []).append(r)
    return rows


ROW_KEYS = ("id", "name", "tag", "complete", "grid", "parent", "model", "info", "max_ll", "inst")


def canon_model_row(r):
    out = {k: r[k] for k in ROW_KEYS}
    out["info"] = sorted(r["info"])
    out["samples"] = None if r["samples"] is None else {"cls": r["samples"]["cls"], "rows": r["samples"]["rows"]}
    out["files"] = sorted(r["files"])
    out["analyses"] = sorted(sorted(a) for a in r["analyses"])
    return out


def canon_real_row(r, sort_samples=False):
    out = {k: r[k] for k in ROW_KEYS}
    out["samples"] = None if r["samples"] is None else {"cls": r["samples"]["cls"], "rows": r["samples"]["rows"]}
    out["files"] = sorted(r["files"])
    out["analyses"] = sorted(sorted(a) for a in r["analyses"])
    return out


# ---------------------------------------------------------------------------------------------
# program -> abstract runs (for Lean `layout` / `direct`)


def split(p):
    return [c for c in str(p).split("/") if c] if p else []


def fit_run(rec_like, ss, model, tag, name_str, samples_rows, samples_cls, complete, store, info, files, analyses, search_tokens, save_all):
    return {
        "pre": split(ss["path_prefix"]),
        "name": split(name_str),
        "name_str": name_str,
        "tag": tag,
        "search_tok": search_tokens,
        "model_tok": list(Identifier(model).hash_list),
        "shape": model_shape(model),
        "info": canon_info(info) if info else None,
        "samples": None if samples_rows is None else {"cls": samples_cls, "rows": hex_rows(samples_rows)},
        "completed": complete,
        "files": files,
        "analyses": analyses,
        "kind": store,
        "save_all": save_all,
    }


def cls_path(samples):
    return samples.samples_info.get("class_path", "")


def abstract_runs(case, records, t_real, pre: Pre):
    """the runs as the program knows them. Samples come from the in-memory result of the fit when the
    search is scripted (deterministic); the names of the auxiliary files (`files`) are taken from the
    tree (they are not what the property is about)."""
    by_path = {tuple(pre.name(p) for p in k): v for k, v in t_real.items()}

    def eff(path):
        s = by_path.get(tuple(path))
        if s is None:
            return None
        return s["zip"] or s["folder"]

    runs = []
    for rec in records:
        if not rec["ok"]:
            return None
        run, ss = rec["run"], rec["run"]["search"]
        tag = ss["unique_tag"]
        if run["k"] in ("grid", "gridcrash"):
            gid = pre.add(rec["ident_tokens"])
            gpath = split(ss["path_prefix"]) + ([tag] if tag else []) + split(ss["name"]) + [gid]
            cells = []
            for i, cell in enumerate(rec["cells"]):
                if not cell["done"]:
                    continue
                name_str = "/".join([ss["name"], gid, cell["label"]])
                c = eff(gpath + [cell["label"]])
                rows = mem_samples(cell["samples"]) if cell["samples"] is not None else None
                cls = cls_path(cell["samples"]) if cell["samples"] is not None else None
                if rows is None and c is not None and c["samples"] is not None:
                    # crashed / unfinished cell: the program holds no result object
                    rows, cls = "tree", c["samples"]["cls"]
                fr = fit_run(rec, ss, cell["model"], tag, name_str, None if rows == "tree" else rows, cls, cell["complete"],
                             "folder" if not cell["complete"] else run["cell_store"][i % 9], run["info"],
                             c["files"] if c else [], c["analyses"] if c else [], rec["search_tokens"],
                             False)  # DatabasePaths.create_child does not hand save_all_samples on to the cells
                if rows == "tree":
                    fr["samples"] = {"cls": cls, "rows": c["samples"]["rows"]}
                cells.append([cell["label"], fr])
            g = eff(gpath)
            runs.append({"k": "grid", "pre": split(ss["path_prefix"]), "name": split(ss["name"]), "name_str": ss["name"], "tag": tag,
                         "ident": rec["ident_tokens"], "completed": rec["complete"], "files": g["files"] if g else [], "cells": cells})
        else:
            fid = pre.add(rec["ident_tokens"])
            path = split(ss["path_prefix"]) + ([tag] if tag else []) + split(ss["name"]) + [fid]
            c = eff(path)
            scripted = ss["cls"] == "Scripted"
            if rec["samples"] is not None and scripted:
                rows, cls = mem_samples(rec["samples"]), cls_path(rec["samples"])
            elif c is not None and c["samples"] is not None:
                rows, cls = "tree", c["samples"]["cls"]
            else:
                rows, cls = None, None
            store = run["store"] if rec["complete"] else "folder"
            fr = fit_run(rec, ss, rec["model"], tag, ss["name"], None if rows == "tree" else rows, cls, rec["complete"],
                         {"stale": "both"}.get(store, store), run["info"], c["files"] if c else [], c["analyses"] if c else [],
                         rec["search_tokens"], bool(ss.get("save_all")))
            if rows == "tree":
                fr["samples"] = {"cls": cls, "rows": c["samples"]["rows"]}
            runs.append({"k": "single", "fit": fr})
    return runs


# ---------------------------------------------------------------------------------------------
# one case


def classify_id_mismatch(run):
    feats = program_features(run["model"])
    if "arith" in feats:
        return "C11-id-reload-arith"
    if "fixed" in feats:
        return "C11-id-reload-fixed-component"
    return "C11-id-not-written-identifier"


def mixed_depth(model):
    depths = {len(p) for p in model.paths}
    return 1 in depths and len(depths) > 1


def program_features(prog):
    feats = set()
    try:
        root = gen_comp.run_program(prog)["root"]
        if mixed_depth(root):
            feats.add("depth")
        if any(m.prior_count == 0 for _, m in root.path_instance_tuples_for_class(af.Model)):
            feats.add("fixed")
    except Exception:
        pass
    for s in prog:
        if s["op"] == "arith":
            feats.add("arith")
        if s["op"] == "model" and s["kw"] and all(not isinstance(v, dict) for v in s["kw"].values()) and s["cls"] != "T2":
            feats.add("fixed")
        if s["op"] in ("coll_list", "coll_dict"):
            items = s["items"] if isinstance(s["items"], list) else list(s["items"].values())
            for it in items:
                if isinstance(it, dict) and it["h"].startswith("p"):
                    feats.add("mixed")
    return feats


def scrape_real(tree: Path, completed_only: bool, pre: Pre):
    dbf = Path(tempfile.mkdtemp(prefix="db_", dir=scratch_dir())) / "scraped.sqlite"
    with contextlib.redirect_stdout(io.StringIO()):
        agg = af.Aggregator.from_database(str(dbf))
        agg.add_directory(str(tree), completed_only=completed_only)
    agg.session.expire_all()
    return agg


def one_case(ctx, case, cfg, label=None, direct=True):
    base = Path(tempfile.mkdtemp(prefix="c11_", dir=scratch_dir()))
    root = base / "output"
    root.mkdir()
    pre = Pre()
    notes = []
    try:
        _one_case(ctx, case, cfg, label, direct, base, root, pre, notes)
    finally:
        shutil.rmtree(base, ignore_errors=True)


def _one_case(ctx, case, cfg, label, direct, base, root, pre, notes):
    rcase = {"program": case, "label": label}
    records = execute(case, root)
    bad = [r for r in records if not r["ok"]]
    if bad:
        # the fit itself cannot run: not a matter of this property (no output directory to load)
        ctx.hit("run-failed")
        ctx.notes.setdefault("runs_that_failed", []).append(bad[0]["error"][:120])
        return
    apply_storage(case, records, root)
    for rec in records:
        ctx.hit("run:" + rec["run"]["k"])
        ctx.hit("search:" + rec["run"]["search"]["cls"])

    t_real = abstract_tree(root, pre, notes)
    runs = abstract_runs(case, records, t_real, pre)
    n_fit_dirs = sum(1 for v in t_real.values() if ((v["zip"] or v["folder"])["metadata"]))
    nontrivial = n_fit_dirs >= 2 or any(r["run"]["k"] in ("grid", "gridcrash") for r in records) or any(v["folder"] is None for v in t_real.values())
    ctx.case(case, nontrivial=nontrivial,
             sample={"runs": [(r["run"]["k"], r["run"]["search"]["cls"], r["run"]["store"]) for r in records], "slots": len(t_real)})
    for v in t_real.values():
        ctx.hit("slot:" + ("both" if v["zip"] and v["folder"] else "zip" if v["zip"] else "folder"))

    # ---- (1) writers: Lean layout(runs) vs the tree
    if runs is not None and "copy" not in case:
        ans = ctx.lean.ask({"p": "C11", "q": "layout", "runs": runs})
        if "driver_error" in ans:
            ctx.disagree("layout-driver", rcase, None, ans)
        else:
            compare_layout(ctx, rcase, records, ans["slots"], t_real, pre)

    # ---- (2) scraping, completed_only False and True
    tree2 = base / "output2"
    shutil.copytree(root, tree2)
    rows_full = None
    for co, tree in ((False, root), (True, tree2)):
        try:
            agg = scrape_real(tree, co, pre)
        except Exception as e:
            scrape_failed(ctx, rcase, records, e, co)
            continue
        order = walk_order(tree)
        rows = db_rows(agg.session, pre)
        view = user_view(agg, pre)
        ans = ctx.lean.ask({"p": "C11", "q": "scrape", "cfg": cfg, "completed_only": co, "slots": wire_slots(t_real, pre, order)})
        if "driver_error" in ans:
            ctx.disagree("scrape-driver", rcase, None, ans)
        else:
            compare_scrape(ctx, rcase, co, rows, view, ans)
        ok = oracle_scrape(ctx, rcase, records, rows, view, co, pre, t_real)
        if not co and ok:
            rows_full = (rows, view)
            if "again" in case and "driver_error" not in ans:
                add_again(ctx, rcase, case, records, agg, ans, cfg, base, pre, notes, rows)
        agg.session.close()

    # ---- (3) the database route
    if rows_full is not None:
        scripted = all(r["run"]["search"]["cls"] == "Scripted" for r in records)
        if direct and scripted:
            direct_route(ctx, rcase, case, records, runs, rows_full, base, pre)
        elif not scripted:
            direct_route(ctx, rcase, case, records, None, rows_full, base, pre, values=False)


def add_again(ctx, rcase, case, records, agg, ans, cfg, base, pre, notes, rows_before):
    """history: a second add_directory on the same database, of a directory holding one of the fits again"""
    rec = records[case["again"]["run"]]
    if rec["run"]["k"] != "single" or "output_path" not in rec:
        return
    src = Path(rec["output_path"])
    dir2 = base / "again" / "elsewhere"
    dir2.mkdir(parents=True)
    if src.exists():
        shutil.copytree(src, dir2 / src.name)
    elif Path(str(src) + ".zip").exists():
        shutil.copy(str(src) + ".zip", str(dir2 / src.name) + ".zip")
    else:
        return
    ctx.hit("history:add-directory-again")
    t2 = abstract_tree(dir2, pre, notes)
    try:
        with contextlib.redirect_stdout(io.StringIO()):
            agg.add_directory(str(dir2))
        agg.session.expire_all()
    except Exception as e:
        ctx.fail("C11-add-again-raises", "adding a directory that holds an already loaded fit raises", rcase, f"{type(e).__name__}: {e}"[:300])
        return
    rows = db_rows(agg.session, pre)
    ans2 = ctx.lean.ask({"p": "C11", "q": "scrape", "cfg": cfg, "completed_only": False, "slots": wire_slots(t2, pre, walk_order(dir2)), "db": ans["rows"]})
    if "driver_error" in ans2:
        ctx.disagree("scrape-again-driver", rcase, None, ans2)
        return
    compare_scrape(ctx, rcase, "again", rows, user_view(agg, pre), ans2)
    if sorted(rows) != sorted(rows_before):
        ctx.fail("C11-duplicate-after-second-load", "loading a fit a second time changes the set of database fits", rcase, [sorted(rows), sorted(rows_before)])
    else:
        for rid in rows:
            a, b = rows[rid], rows_before[rid]
            diff = [k for k in ("complete", "parent", "model", "info", "max_ll", "inst", "samples", "children") if a[k] != b[k]]
            if diff:
                ctx.fail("C11-second-load-changes-fit", "loading a fit a second time changes what the database holds for it", rcase, [rid, diff])


def compare_layout(ctx, rcase, records, model_slots, t_real, pre):
    real = {}
    for k, v in t_real.items():
        real[tuple(pre.name(p) for p in k)] = v
    model = {tuple(s["path"]): s for s in model_slots}
    stale = {tuple(split(r["output_path"].split("/output/", 1)[1])[:-1]) + (pre.name(Path(r["output_path"]).name),): True
             for r in records if r["run"]["k"] not in ("grid", "gridcrash") and r["run"]["store"] == "stale" and r.get("complete")}
    if set(real) != set(model):
        ctx.disagree("layout-paths", rcase, sorted(map(list, real)), sorted(map(list, model)))
        return
    for path, ms in model.items():
        rs = real[path]
        for part in ("folder", "zip"):
            mc, rc = ms[part], wire_content(rs[part], pre)
            if (mc is None) != (rc is None):
                ctx.disagree("layout-storage", rcase, {"path": path, part: rc is not None}, {"path": path, part: mc is not None})
                continue
            if mc is None:
                continue
            rc = dict(rc)
            if part == "folder" and path in stale:
                rc["completed"] = True  # aged by the harness after the run
            for key in ("metadata", "completed", "ident", "parent", "grid", "search", "model", "info", "samples"):
                a, b = rc[key], mc[key]
                if key == "samples" and a is not None and b is not None:
                    a = {"cls": a["cls"], "rows": a["rows"]}
                if key == "info":
                    a = sorted(a) if a else None
                    b = sorted(b) if b else None
                if key == "model" and a is not None and b is not None and a["shape"] == b["shape"] and a["tokens"] != b["tokens"]:
                    # reload changes the identifier tokens: reported by the id clause of the oracle
                    ctx.hit("layout:model-tokens-change-on-reload")
                    continue
                if key == "ident" and a is not None and b is not None and a != b:
                    ctx.hit("layout:written-identifier-differs")
                if a != b:
                    ctx.hit("layout-diff:" + key)
                    ctx.disagree("layout-" + key, rcase, {"path": list(path), "part": part, key: a}, {key: b})
                    layout_oracle(ctx, rcase, records, path, key, a, b)


def layout_oracle(ctx, rcase, records, path, key, real, model):
    """the directory does not hold what the program ran: a writer / round-trip failure. It is reported
    here only where it makes the loaded database differ from the fit (id: `oracle_scrape`)."""
    if key in ("samples", "info", "model"):
        ctx.fail("C11-directory-holds-other-" + key, f"the directory does not hold the {key} of the fit that was run", rcase,
                 {"path": list(path), "directory": real, "program": model})


def compare_scrape(ctx, rcase, co, rows, view, ans):
    mrows = model_rows(ans)
    dup = {k: v for k, v in mrows.items() if len(v) > 1}
    if dup:
        # the model predicts two rows under one id: the database cannot hold that (IntegrityError expected earlier)
        ctx.disagree("scrape-duplicate-id-accepted", rcase, sorted(rows), sorted(dup))
        return
    if set(mrows) != set(rows):
        ctx.disagree(f"scrape-row-ids(co={co})", rcase, sorted(rows), sorted(mrows))
        return
    for rid, (mr,) in mrows.items():
        a, b = canon_real_row(rows[rid]), canon_model_row(mr)
        if a != b:
            keys = [k for k in a if a[k] != b[k]]
            for k in keys:
                ctx.hit("scrape-diff:" + k)
            ctx.disagree(f"scrape-row(co={co}):" + ",".join(keys), rcase, {k: a[k] for k in keys}, {k: b[k] for k in keys})
    if sorted(ans["top"]) != view["top"]:
        ctx.disagree(f"scrape-top-level(co={co})", rcase, view["top"], sorted(ans["top"]))
    mg = {g["id"]: g for g in ans["grids"]}
    if set(mg) != set(view["grids"]):
        ctx.disagree(f"scrape-grids(co={co})", rcase, sorted(view["grids"]), sorted(mg))
        return
    for gid, g in mg.items():
        rv = view["grids"][gid]
        if sorted(g["children"]) != rv["children"]:
            ctx.disagree(f"scrape-grid-children(co={co})", rcase, rv["children"], sorted(g["children"]))
        if g["best"] != rv["best"]:
            # ties: the order of `fit.children` is the database's; any first maximum is a maximum
            lls = {c: rows[c]["max_ll"] for c in rv["children"] if c in rows}
            if not (g["best"] in lls and rv["best"] in lls and lls[g["best"]] == lls[rv["best"]]):
                ctx.disagree(f"scrape-grid-best(co={co})", rcase, rv["best"], g["best"])


def scrape_failed(ctx, rcase, records, e, co):
    what = f"{type(e).__name__}: {e}"[:300]
    feats = set()
    for r in records:
        feats |= program_features(r["run"]["model"])
    if isinstance(e, KeyError) and "arith" in feats:
        ctx.fail("C11-id-reload-arith", "a fit whose model contains an arithmetic prior cannot be loaded (operand names change on reload)", rcase, what)
        return
    if isinstance(e, KeyError) and "depth" in feats:
        ctx.fail("C11-samples-mixed-depth", "loading raises KeyError for a fit whose model has a parameter directly on the root beside nested ones (samples.csv keys 'x' vs ('x',))", rcase, what)
        return
    cp = rcase["program"].get("copy")
    if "IntegrityError" in type(e).__name__ and cp and rcase["program"]["runs"][cp["run"]]["k"] == "combined":
        ctx.fail("C11-duplicate-fit-child-analyses", "add_directory raises IntegrityError when a fit with child analyses is present twice in the tree (the children are created again under the same ids)", rcase, what)
        return
    n_grids = sum(1 for r in records if r["run"]["k"] in ("grid", "gridcrash"))
    if "IntegrityError" in type(e).__name__ and n_grids >= 2:
        ctx.fail("C11-grid-id-collision", "loading fails (IntegrityError): two grid searches get the same database id", rcase, what)
        return
    ctx.fail("C11-scrape-raises", f"Aggregator.add_directory(completed_only={co}) raises", rcase, what)


# ---------------------------------------------------------------------------------------------
# the property, read directly on the real rows


def expected_fits(records, pre):
    """every search fit the program left in the tree: (pre-image id, record-ish)"""
    out = []
    for rec in records:
        run, ss = rec["run"], rec["run"]["search"]
        if run["k"] in ("grid", "gridcrash"):
            gid = ".".join(rec["ident_tokens"])
            for cell in rec["cells"]:
                if not cell["done"]:
                    continue
                tag = ss["unique_tag"]
                toks = rec["search_tokens"] + list(Identifier(cell["model"]).hash_list) + ([tag] if tag is not None else [])
                out.append({"id": ".".join(toks), "rec": rec, "model": cell["model"], "samples": cell["samples"], "complete": cell["complete"],
                            "parent": gid, "info": run["info"], "name": "/".join([ss["name"], gid, cell["label"]])})
        else:
            out.append({"id": ".".join(rec["ident_tokens"]), "rec": rec, "model": rec["model"], "samples": rec["samples"],
                        "complete": rec["complete"], "parent": None, "info": run["info"], "name": ss["name"]})
    return out


def oracle_scrape(ctx, rcase, records, rows, view, co, pre, t_real):
    """returns False when an id clause already failed (what follows from it is not reported again)"""
    exp = expected_fits(records, pre)
    for e in exp:
        if co and not e["complete"]:
            continue
        if e["id"] not in rows:
            others = [r for r in rows.values() if not r["grid"] and r["name"] == e["name"]]
            ctx.fail(classify_id_mismatch(e["rec"]["run"]), "the database fit's id is not the identifier the fit was written under", rcase,
                     {"written": e["id"], "loaded": [r["id"] for r in others][:3], "co": co})
            return False
    for e in exp:
        run = e["rec"]["run"]
        if co and not e["complete"]:
            if e["id"] in rows:
                ctx.fail("C11-completed-only-ignored", "completed_only=True loaded a fit that holds no .completed", rcase, e["id"])
            continue
        row = rows[e["id"]]
        if md5(e["id"]) != row["raw_id"]:
            ctx.fail("C11-id-not-md5", "database id is not the md5 of the written identifier", rcase, [e["id"], row["raw_id"]])
        # folder name: identifier for plain fits
        if e["parent"] is None and "output_path" in e["rec"] and Path(e["rec"]["output_path"]).name != row["raw_id"]:
            ctx.fail("C11-id-not-folder", "database id differs from the folder name", rcase, [e["rec"]["output_path"], row["raw_id"]])
        if row["complete"] != e["complete"]:
            # an aged folder beside the archive does not un-complete the fit
            ctx.fail("C11-completion-flag", "completion flag differs from the fit's", rcase, [e["id"], row["complete"], e["complete"]])
        if row["tag"] != run["search"]["unique_tag"]:
            ctx.fail("C11-tag", "unique_tag differs", rcase, [row["tag"], run["search"]["unique_tag"]])
        if row["name"] != e["name"]:
            ctx.fail("C11-name", "name differs", rcase, [row["name"], e["name"]])
        want_info = sorted([str(k), info_str(v)] for k, v in (e["info"] or {}).items())
        if row["info"] != want_info:
            ctx.fail("C11-info-lost", "info differs from the info the fit was given", rcase, [row["info"], want_info])
        if row["model"] != model_shape(e["model"]):
            ctx.fail("C11-model-differs", "the loaded model is not the model that was fitted", rcase, e["id"])
        scripted = run["search"]["cls"] == "Scripted"
        mem = e["samples"]
        if mem is not None and scripted:
            want = hex_rows(mem_samples(mem))
            got = row["samples"]["rows"] if row["samples"] else None
            if got != want:
                ctx.fail("C11-samples-differ", "the loaded samples are not the samples of the fit", rcase,
                         {"id": e["id"], "n_loaded": None if got is None else len(got), "n_fit": len(want)})
            best = mem.max_log_likelihood_sample
            lls = [float(s.log_likelihood) for s in mem.sample_list]
            if row["max_ll"] != f2h(max(lls)):
                ctx.fail("C11-max-likelihood", "max_log_likelihood is not the highest likelihood of the samples", rcase, [row["max_ll"], f2h(max(lls))])
            # best-fit instance: parameters of a sample of highest likelihood (the first)
            first = next(i for i, v in enumerate(lls) if v == max(lls))
            want_inst = [f2h(v) for v in mem.parameter_lists[first]]
            if row["inst"] != want_inst:
                ctx.fail("C11-best-fit-instance", "the best-fit instance is not the first sample of highest likelihood", rcase,
                         {"id": e["id"], "loaded": row["inst"], "fit": want_inst})
        elif row["samples"] is not None:
            # real searches / crashed runs: judged against the directory's own csv
            lls = [r[0] for r in row["samples"]["rows"]]
            from common import h2f
            vals = [h2f(x) for x in lls]
            if row["max_ll"] != f2h(max(vals)):
                ctx.fail("C11-max-likelihood", "max_log_likelihood is not the highest likelihood of the samples", rcase, [row["max_ll"], f2h(max(vals))])
            first = next(i for i, v in enumerate(vals) if v == max(vals))
            if row["inst"] != row["samples"]["rows"][first][4]:
                ctx.fail("C11-best-fit-instance", "the best-fit instance is not the first sample of highest likelihood", rcase, e["id"])
        if run["k"] == "combined":
            n = run["n_analyses"]
            if len(row["analyses"]) != n or row["analysis_ids"] != sorted(f"{row['raw_id']}_{i}" for i in range(n)):
                ctx.fail("C11-child-analyses", "child analyses are not attached one by one", rcase, [row["analysis_ids"], n])
    # nothing else
    exp_ids = {e["id"] for e in exp if not (co and not e["complete"])}
    extra = [r["id"] for r in rows.values() if not r["grid"] and r["id"] not in exp_ids]
    if extra and not any(ctx_f["case"] is rcase for ctx_f in ctx.failures):
        ctx.fail("C11-extra-fits", "the database holds fits the directory does not", rcase, extra[:4])
    # grid searches: one parent each, linked to exactly its cells, best = highest likelihood
    for rec in records:
        run = rec["run"]
        if run["k"] not in ("grid", "gridcrash"):
            continue
        if co and not rec["complete"]:
            continue
        gid = ".".join(rec["ident_tokens"])
        cells = [e for e in exp if e["parent"] == gid and not (co and not e["complete"])]
        parents = [r for r in rows.values() if r["grid"] and set(r["children"]) & {c["id"] for c in cells}]
        if len(parents) != 1:
            ctx.fail("C11-grid-parent-count", "a grid search does not appear as exactly one parent fit", rcase, [gid, len(parents)])
            continue
        p = parents[0]
        if sorted(p["children"]) != sorted(c["id"] for c in cells):
            ctx.fail("C11-grid-children", "the grid search's parent fit is not linked to exactly its cells", rcase,
                     {"grid": gid, "children": p["children"], "cells": sorted(c["id"] for c in cells)})
        if p["id"] != gid:
            ctx.fail("C11-grid-parent-id", "the grid search's parent fit is not stored under the identifier it was written under", rcase, [p["id"], gid])
        v = view["grids"].get(p["id"])
        if v is None:
            ctx.fail("C11-grid-not-listed", "grid_searches() does not list the grid search", rcase, gid)
            continue
        from common import h2f
        lls = {c["id"]: h2f(rows[c["id"]]["max_ll"]) for c in cells if c["id"] in rows and rows[c["id"]]["max_ll"] is not None}
        if lls and len(lls) == len(cells):
            zero_max = max(lls.values()) == 0.0 and min(lls.values()) < 0.0
            ctx.hit("grid-best:" + ("max-is-0.0" if zero_max else "other"))
            if zero_max and os.environ.get("C11_SAVE_ZERO_MAX") and not os.path.exists(os.environ["C11_SAVE_ZERO_MAX"]):
                json.dump({"program": rcase.get("program") or rcase, "note": "grid search whose best cell has max_log_likelihood exactly 0.0"},
                          open(os.environ["C11_SAVE_ZERO_MAX"], "w"), indent=1, default=str)
            if v["best"] not in lls or lls[v["best"]] != max(lls.values()):
                ctx.fail("C11-grid-best", "best_fit is not a cell of highest likelihood", rcase, [v["best"], lls])
        if p["complete"] != rec["complete"]:
            ctx.fail("C11-completion-flag", "grid completion flag differs", rcase, gid)
    # top level: every fit without a parent, every grid search
    want_top = sorted([e["id"] for e in exp if e["parent"] is None and not (co and not e["complete"])] +
                      [r["id"] for r in rows.values() if r["grid"]] +
                      [e["id"] for e in exp if e["parent"] is not None and not (co and not e["complete"]) and rows.get(e["id"]) is not None
                       and rows[e["id"]]["parent"] not in rows])
    if view["top"] != want_top and not ctx.failures:
        ctx.fail("C11-top-level", "iterating the aggregator does not yield the top-level fits", rcase, [view["top"], want_top])
    return True


# ---------------------------------------------------------------------------------------------
# the database route


def direct_route(ctx, rcase, case, records, runs, rows_full, base, pre, values=True):
    """`values=False` (stochastic real searches): the route must run and give the same ids, flags and links"""
    from autofit.database import open_database

    rows_s, view_s = rows_full
    combined = any(r["run"]["k"] == "combined" for r in records)
    real_fail = ctx.fail

    def fail(classifier, what, case, detail=None):
        if combined:
            # everything the database route does differently for multi-analysis children is one finding
            classifier = "C11-direct-combined"
            what = "a fit with combined analyses is not written through a session as it is loaded from a directory"
        real_fail(classifier, what, case, detail)

    out2 = base / "direct_out"
    out2.mkdir()
    dbf = base / "direct.sqlite"
    session = open_database(str(dbf))
    try:
        recs = execute(case, out2, session=session)
    except Exception as e:
        fail("C11-direct-raises", "the database route raises", rcase, f"{type(e).__name__}: {e}"[:200])
        return
    bad = [r for r in recs if not r["ok"]]
    if bad:
        k, cls = bad[0]["run"]["k"], bad[0]["run"]["search"]["cls"]
        if k == "combined" and "CircularDependency" in bad[0]["error"]:
            fail("C11-direct-combined", "a fit with combined analyses that save attributes cannot be written through a session (CircularDependencyError: the child paths get the parent's identifier)", rcase, bad[0]["error"])
        elif cls != "Scripted":
            fail("C11-direct-raises-" + cls, f"{cls} cannot be fitted through a database session", rcase, bad[0]["error"])
        else:
            fail("C11-direct-raises", "the database route raises", rcase, bad[0]["error"])
        return
    session.commit()
    session.close()
    agg = af.Aggregator.from_database(str(dbf))
    rows_d = db_rows(agg.session, pre)
    view_d = user_view(agg, pre)
    ctx.hit("direct-compared")
    # model tie (the database route's handling of sub-analysis paths is not modelled: known finding)
    if runs is not None and not combined:
        ans = ctx.lean.ask({"p": "C11", "q": "direct", "runs": runs})
        if "driver_error" in ans:
            ctx.disagree("direct-driver", rcase, None, ans)
        else:
            mrows = model_rows(ans)
            if set(mrows) != set(rows_d):
                ctx.disagree("direct-row-ids", rcase, sorted(rows_d), sorted(mrows))
            else:
                for rid, lst in mrows.items():
                    mr = lst[0]
                    a, b = canon_real_row(rows_d[rid]), canon_model_row(mr)
                    skip = {"files", "analyses"}
                    if mr["grid"]:
                        skip |= {"inst", "model"}  # the parent carries the prior-median instance of the model
                    if a["samples"] is not None and b["samples"] is not None:
                        a["samples"]["rows"] = sorted(a["samples"]["rows"])
                        b["samples"]["rows"] = sorted(b["samples"]["rows"])
                    keys = [k for k in a if k not in skip and a[k] != b[k]]
                    if keys:
                        for k in keys:
                            ctx.hit("direct-diff:" + k)
                        ctx.disagree("direct-row:" + ",".join(keys), rcase, {k: a[k] for k in keys}, {k: b[k] for k in keys})
    # the property: both routes agree
    for rid, d in rows_d.items():
        s = rows_s.get(rid)
        if s is None:
            fail("C11-routes-differ-id" if not d["grid"] else "C11-grid-parent-id",
                     "a fit written through a session has no counterpart with the same id after loading the directory", rcase,
                     {"direct": rid, "loaded": sorted(rows_s)[:6]})
            continue
        keys = ["complete", "grid", "parent", "tag", "info"] + (["max_ll", "inst"] if values else [])
        if not d["grid"]:
            keys += ["name", "model"]
        diff = [k for k in keys if d[k] != s[k] and not (k == "tag" and d["grid"] and (d[k] or "") == (s[k] or ""))]
        if diff:
            fail("C11-routes-differ-" + diff[0], "loading the directory and writing through a session disagree on " + ",".join(diff), rcase,
                     {"id": rid, "direct": {k: d[k] for k in diff}, "loaded": {k: s[k] for k in diff}})
        if not values:
            pass
        elif d["samples"] is not None and s["samples"] is not None:
            ds, ss_ = d["samples"]["rows"], s["samples"]["rows"]
            if not all(r in ss_ for r in ds):
                fail("C11-routes-differ-samples", "samples written through a session are not among the loaded ones", rcase, rid)
        elif (d["samples"] is None) != (s["samples"] is None):
            fail("C11-routes-differ-samples", "one route holds samples, the other none", rcase, rid)
        if sorted(d["children"]) != sorted(s["children"]):
            fail("C11-routes-differ-children", "children differ between the routes", rcase, rid)
    missing = [rid for rid in rows_s if rid not in rows_d]
    if missing:
        fail("C11-routes-differ-id", "a loaded fit has no counterpart on the database route", rcase, missing[:4])
    if view_d["top"] != view_s["top"] and not missing:
        fail("C11-routes-differ-top", "top-level fits differ between the routes", rcase, [view_d["top"], view_s["top"]])
    agg.session.close()


# ---------------------------------------------------------------------------------------------
# every search's persisted settings can be read back


def search_roundtrip(ctx, sspec=None):
    sspec = sspec or c07.gen_search_spec(ctx.rng)
    case = {"search": sspec}
    ctx.case(case, nontrivial=bool(sspec["kw"]), sample=None)
    ctx.hit("search-json:" + sspec["cls"])
    try:
        search = c07.mk_search(sspec)
    except Exception as e:
        ctx.notes.setdefault("search_not_constructible", []).append(f"{sspec['cls']}: {type(e).__name__}")
        return
    try:
        s2 = from_dict(json.loads(json.dumps(to_dict(search))))
    except Exception as e:
        ctx.fail("C11-search-json-" + sspec["cls"], f"the persisted settings of {sspec['cls']} cannot be read back", case, f"{type(e).__name__}: {e}"[:200])
        return
    a, b = list(Identifier(search).hash_list), list(Identifier(s2).hash_list)
    if a != b:
        ctx.fail("C11-search-reload-" + sspec["cls"], f"{sspec['cls']} read back from search.json has different identifying settings", case, [a, b])
    if s2.name != search.name or s2.unique_tag != search.unique_tag:
        ctx.fail("C11-search-reload-name", "name / unique_tag differ after reading search.json back", case, sspec)


# ---------------------------------------------------------------------------------------------
# flag probing


def probe_cfg(ctx):
    """is a grid search stored under its folder name (repaired) or under its unique tag (pinned)?"""
    case = {"runs": [{"k": "grid", "search": dict(gen_sspec(ctx.rng, 0), name="probe", path_prefix=None, unique_tag="ptag", n_points=2, ties=False),
                      "model": [{"op": "prior", "h": "p1", "kind": "U", "args": [0.0, 1.0]}, {"op": "prior", "h": "p2", "kind": "U", "args": [0.0, 2.0]},
                                {"op": "model", "h": "m1", "cls": "P2", "kw": {"a": {"h": "p1"}, "b": {"h": "p2"}}}, {"op": "root", "h": "m1"}],
                      "analysis": {"offset": 0.0, "scale": 1.0, "attrs": {}}, "info": None, "store": "both", "steps": 2, "dims": 1,
                      "cell_store": ["both"] * 9}]}
    base = Path(tempfile.mkdtemp(prefix="c11p_", dir=scratch_dir()))
    try:
        root = base / "output"
        root.mkdir()
        recs = execute(case, root)
        pre = Pre()
        try:
            agg = scrape_real(root, False, pre)
        except Exception as e:
            ctx.fail("C11-scrape-raises", "Aggregator.add_directory raises on the output of one grid search", {"program": case, "label": "probe"},
                     f"{type(e).__name__}: {e}"[:300])
            return {"gridIdFolder": True}
        ids = [f.id for f in agg.session.query(Fit).all() if f.is_grid_search]
        agg.session.close()
        folder = ids == [recs[0]["identifier"]]
    finally:
        shutil.rmtree(base, ignore_errors=True)
    return {"gridIdFolder": bool(folder)}


def run(ctx):
    ctx.rule = RULE
    ctx.assumptions = [
        "md5 is collision free on the identifiers met (ids are compared as pre-image token strings; md5(pre-image) == id is checked)",
        "SQLite/SQLAlchemy store and return rows faithfully; zipfile/shutil/os.walk behave as documented",
        "file contents enter the model parsed by the library's own from_dict/Identifier (subject of C07/C08) and by the harness's csv reader",
        "fits are run with a deterministic scripted search (harness/c11lib.py) so that both routes receive the same samples; real searches only on the directory route",
    ]
    cfg = probe_cfg(ctx)
    ctx.notes["flags_observed"] = cfg
    if not cfg["gridIdFolder"]:
        ctx.hit("flag:gridIdFolder=off")
    uid = 1
    import time
    t0 = time.time()
    for f in sorted((VERIF / "corpus" / "C11").glob("*.json")):
        c = json.loads(f.read_text())
        if "search" in c:
            search_roundtrip(ctx, c["search"])
        elif "fit_directory" in c:
            c11_grow.replay_growth(ctx, c)
        else:
            one_case(ctx, c["program"], cfg, label=f.name)
    ctx.notes["t_corpus_s"] = round(time.time() - t0, 1)
    t0 = time.time()
    for _ in range(ctx.n(8, 110)):
        uid += 1
        one_case(ctx, gen_case(ctx.rng, uid), cfg)
    ctx.notes["t_generated_s"] = round(time.time() - t0, 1)
    t0 = time.time()
    # quick: Drawer is exercised by corpus/C11/drawer_session.json
    reals = ["LBFGS"] if ctx.tier == "quick" else ["Drawer", "LBFGS", "BFGS", "DynestyStatic", "PySwarmsGlobal", "Drawer", "LBFGS"]
    for r in reals:
        uid += 1
        one_case(ctx, gen_case(ctx.rng, uid, real=r), cfg, direct=False)
    ctx.notes["t_real_searches_s"] = round(time.time() - t0, 1)
    t0 = time.time()
    for _ in range(ctx.n(33, 330)):
        search_roundtrip(ctx)
    ctx.notes["t_search_json_s"] = round(time.time() - t0, 1)
    c11_grow.run_growth(ctx)  # constructor chains of the search classes; files of a fit directory -> database columns


def replay(ctx, payload):
    case = payload.get("case") or payload.get("disagreements", [{}])[0].get("case")
    cfg = probe_cfg(ctx)
    if "search" in case:
        search_roundtrip(ctx, case["search"])
    elif "program" not in case:
        c11_grow.replay_growth(ctx, case)
    else:
        one_case(ctx, case["program"], cfg, label="replay")
