"""Shared plumbing of the correspondence harness.

* repo set-up (imports autofit from /repo's *working tree*, pushes a scratch config)
* float <-> 16-hex-digit codec (bit exact)
* LeanDriver: one long-lived `lake env lean --run AFDriver/Main.lean` pipe (one JSON per line)
* Ctx: counts cases, records disagreements / oracle failures, classifies them against
  known_findings.json, writes evidence + replay files, prints VIOLATION / KNOWN-FINDING lines
"""
import atexit
import hashlib
import json
import logging
import math
import os
import random
import shutil
import struct
import subprocess
import sys
import tempfile
import time
import warnings
from pathlib import Path

VERIF = Path(__file__).resolve().parent.parent
LEAN_DIR = VERIF / "lean"
REPO = Path((os.environ.get("VERIF_REPO") or "/repo"))
GUARD = "PYAUTOFIT_VERIF"

_scratch = None


def scratch_dir() -> Path:
    """Per-run scratch directory outside /repo and /verif; removed at exit."""
    global _scratch
    if _scratch is None:
        base = os.environ.get("VERIF_SCRATCH") or tempfile.gettempdir()
        # a name without underscores or dots, so that no check can mistake it for a label
        import uuid

        _scratch = Path(base) / f"afverif{os.getpid()}x{uuid.uuid4().hex[:10]}"
        _scratch.mkdir(parents=True)
        atexit.register(lambda: shutil.rmtree(_scratch, ignore_errors=True))
    return _scratch


_repo_ready = False


def setup_repo():
    """Import autofit from the current working tree of /repo with a scratch config/output."""
    global _repo_ready
    if _repo_ready:
        return
    os.environ.setdefault(GUARD, "1")
    warnings.filterwarnings("ignore")
    logging.disable(logging.CRITICAL)
    if str(REPO) not in sys.path:
        sys.path.insert(0, str(REPO))
    here = str(Path(__file__).resolve().parent)
    if here not in sys.path:
        sys.path.insert(0, here)
    cfg = scratch_dir() / "config"
    if not cfg.exists():
        shutil.copytree(REPO / "autofit" / "config", cfg)
        extra = Path(here) / "config"
        if extra.exists():
            for p in extra.rglob("*"):
                if p.is_file():
                    dest = cfg / p.relative_to(extra)
                    dest.parent.mkdir(parents=True, exist_ok=True)
                    shutil.copy(p, dest)
    out = scratch_dir() / "output"
    out.mkdir(exist_ok=True)
    from autoconf import conf

    conf.instance.push(new_path=str(cfg), output_path=str(out))
    _repo_ready = True


# ---------------------------------------------------------------------------------------------
# floats


def f2h(x) -> str:
    x = float(x)
    if x != x:
        return "nan"
    return struct.pack(">d", x).hex()


def h2f(s: str) -> float:
    if s == "nan":
        return float("nan")
    return struct.unpack(">d", bytes.fromhex(s))[0]


def ulp_diff(a: float, b: float) -> float:
    """distance in units in the last place (inf if signs/finite-ness differ)"""
    if a != a and b != b:
        return 0
    if a != a or b != b:
        return math.inf
    if a == b:
        return 0
    if math.isinf(a) or math.isinf(b):
        return math.inf
    ia = struct.unpack(">q", struct.pack(">d", a))[0]
    ib = struct.unpack(">q", struct.pack(">d", b))[0]
    if ia < 0:
        ia = -(ia & 0x7FFFFFFFFFFFFFFF)
    if ib < 0:
        ib = -(ib & 0x7FFFFFFFFFFFFFFF)
    return abs(ia - ib)


def close(a: float, b: float, ulps=0, rel=0.0) -> bool:
    if a != a and b != b:
        return True
    if a == b:
        return True
    if ulps and ulp_diff(a, b) <= ulps:
        return True
    if rel and abs(a - b) <= rel * max(abs(a), abs(b), 1e-300):
        return True
    return False


# ---------------------------------------------------------------------------------------------
# Lean side


class LeanError(Exception):
    pass


def lake_build(targets, timeout=1800):
    """Incremental build; returns (ok, output)."""
    p = subprocess.run(
        ["lake", "build", *targets],
        cwd=LEAN_DIR,
        capture_output=True,
        text=True,
        timeout=timeout,
    )
    return p.returncode == 0, (p.stdout + p.stderr)


class LeanDriver:
    """One long-lived model driver process; ask() sends one JSON object, gets one back."""

    def __init__(self):
        self.proc = subprocess.Popen(
            ["lake", "env", "lean", "--run", "AFDriver/Main.lean"],
            cwd=LEAN_DIR,
            stdin=subprocess.PIPE,
            stdout=subprocess.PIPE,
            stderr=subprocess.PIPE,
            text=True,
            bufsize=1,
        )
        self.n = 0
        r = self.ask({"p": "ping"})
        if not r.get("pong"):
            raise LeanError(f"driver did not answer ping: {r}")

    def ask(self, req: dict) -> dict:
        line = json.dumps(req, separators=(",", ":"))
        try:
            self.proc.stdin.write(line + "\n")
            self.proc.stdin.flush()
            out = self.proc.stdout.readline()
        except BrokenPipeError:
            out = ""
        if not out:
            err = self.proc.stderr.read() if self.proc.stderr else ""
            raise LeanError(f"driver died: {err[-2000:]}")
        self.n += 1
        try:
            return json.loads(out)
        except ValueError:
            err = ""
            if self.proc.poll() is not None and self.proc.stderr:
                err = self.proc.stderr.read()
            raise LeanError(f"driver answered with something that is not JSON: {out[:300]!r} {err[-1500:]}")

    def close(self):
        try:
            self.proc.stdin.close()
            self.proc.wait(timeout=10)
        except Exception:
            self.proc.kill()


# ---------------------------------------------------------------------------------------------
# known findings


def load_known():
    p = VERIF / "known_findings.json"
    if not p.exists():
        return []
    return json.loads(p.read_text())["findings"]


# ---------------------------------------------------------------------------------------------
# run context


def canon_hash(obj) -> str:
    return hashlib.sha1(json.dumps(obj, sort_keys=True, default=str).encode()).hexdigest()[:16]


class Ctx:
    def __init__(self, prop: str, tier: str, seed: int):
        self.prop = prop
        self.tier = tier
        self.seed = seed
        self.rng = random.Random(f"{prop}-{seed}")
        self.t0 = time.time()
        self.evaluations = 0
        self.distinct = set()
        self.samples = []
        self.branch = {}
        self.disagreements = []  # model != impl
        self.failures = []  # property fails on the real code
        self.known_hits = {}
        self.notes = {}
        self.known = [k for k in load_known() if k["property"] == prop]
        self._driver = None
        self.proof = None
        self.level = "proof"
        self.assumptions = []
        self.rule = ""
        self.budget_scale = {"quick": 1, "thorough": 12}[tier]

    # -- model driver
    @property
    def lean(self) -> LeanDriver:
        if self._driver is None:
            self._driver = LeanDriver()
        return self._driver

    def n(self, quick: int, thorough: int = None) -> int:
        if self.tier == "quick":
            return quick
        return thorough if thorough is not None else quick * self.budget_scale

    # -- bookkeeping
    def case(self, canonical, nontrivial=True, sample=None):
        self.evaluations += 1
        if nontrivial:
            self.distinct.add(canon_hash(canonical))
        if sample is not None and len(self.samples) < 4:
            self.samples.append(sample)

    def hit(self, branch: str, k: int = 1):
        self.branch[branch] = self.branch.get(branch, 0) + k

    def disagree(self, clause: str, case, impl, model):
        """model and implementation differ on `case` (not by itself a violation)"""
        self.disagreements.append(
            {"clause": clause, "case": case, "impl": impl, "model": model}
        )

    def fail(self, classifier: str, what: str, case, detail=None):
        """the property itself fails on the real code for `case`"""
        for k in self.known:
            if k.get("status") == "known" and k.get("classifier") == classifier:
                self.known_hits.setdefault(k["id"], (k, case, detail))
                return
        self.failures.append(
            {"classifier": classifier, "what": what, "case": case, "detail": detail}
        )

    # -- finishing
    def write_replay(self, kind: str, payload: dict) -> str:
        d = VERIF / "replays"
        d.mkdir(exist_ok=True)
        payload = dict(payload)
        payload.update({"property": self.prop, "seed": self.seed, "tier": self.tier, "kind": kind})
        name = f"{self.prop}-{canon_hash(payload)}.json"
        (d / name).write_text(json.dumps(payload, indent=1, default=str))
        return f"replays/{name}"

    def finish(self) -> int:
        if self._driver is not None:
            self._driver.close()
        lines = []
        for kid, (k, case, detail) in sorted(self.known_hits.items()):
            lines.append(f"KNOWN-FINDING: property={self.prop} {k['what']}")
        violations = 0
        seen = set()
        for f in self.failures:
            key = f["classifier"]
            if key in seen:
                continue
            seen.add(key)
            path = self.write_replay("property-fails-on-implementation", f)
            lines.append(f"VIOLATION property={self.prop} replay={path}")
            violations += 1
        proof_broken = self.proof is not None and not self.proof.get("ok", False)
        if violations == 0 and (self.disagreements or proof_broken):
            # the tie or the proof is broken and the search found no failing input
            payload = {
                "no_longer_checks": (
                    [f"proof: {self.proof.get('why')}"] if proof_broken else []
                )
                + [f"correspondence: {d['clause']}" for d in self.disagreements[:5]],
                "disagreements": self.disagreements[:5],
                "proof": self.proof,
            }
            path = self.write_replay("tie-broken", payload)
            lines.append(
                f"VIOLATION property={self.prop} replay={path} no-failing-input-found"
            )
            violations += 1
        self.write_evidence(violations)
        for line in lines:
            print(line, flush=True)
        return 1 if violations else 0

    def write_evidence(self, violations: int):
        proof = self.proof or {}
        cov = {
            "obligations": int(proof.get("obligations", 0)),
            "discharged": int(proof.get("discharged", 0)),
            "checker_cmd": proof.get("checker_cmd", ""),
            "trusted_base": proof.get("trusted_base", []),
            "theorems": proof.get("theorems", []),
            "axioms_used": proof.get("axioms", []),
            "evaluations": self.evaluations,
            "distinct_nontrivial": len(self.distinct),
            "rule": self.rule,
            "samples": self.samples if self.samples else ["(no generated case this run)"],
            "model_branch_counts": self.branch,
            "disagreements_checked": self.evaluations,
            "disagreements_found": len(self.disagreements),
            "known_findings_reproduced": sorted(self.known_hits),
            "exhaustive": bool(self.notes.get("exhaustive", False)),
        }
        for k, v in self.notes.items():
            cov.setdefault(k, v)
        ev = {
            "property_id": self.prop,
            "tier": self.tier,
            "seed": int(self.seed),
            "level": self.level,
            "coverage": cov,
            "assumptions": self.assumptions,
            "wall_s": round(time.time() - self.t0, 2),
            "violations": violations,
        }
        # development runs without the proof part (--no-proof) describe no complete check: kept apart
        d = VERIF / "evidence" if self.proof else Path(os.environ.get("VERIF_DEV_EVIDENCE", "/tmp/afverif-dev-evidence"))
        d.mkdir(exist_ok=True, parents=True)
        (d / f"{self.prop}.json").write_text(json.dumps(ev, indent=1, default=str))


def debug_dump(ctx, n=6):
    from collections import Counter

    c = Counter(d["clause"] for d in ctx.disagreements)
    print("disagreements:", dict(c), file=sys.stderr)
    for d in ctx.disagreements[:n]:
        print(json.dumps({k: d[k] for k in ("clause", "impl", "model")}, default=str)[:1500], file=sys.stderr)
        print("   prog:", json.dumps(d["case"].get("program") if isinstance(d["case"], dict) else d["case"], default=str)[:1500], file=sys.stderr)
    c = Counter(f["classifier"] for f in ctx.failures)
    print("failures:", dict(c), file=sys.stderr)
    for f in ctx.failures[:n]:
        print(json.dumps({k: f[k] for k in ("classifier", "what", "detail")}, default=str)[:800], file=sys.stderr)
