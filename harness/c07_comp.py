"""C07 growth — the identifier as a function of the model *composition*.

`cnode_of(model)` reads a real model into the composition type of lean/AFModel/IdentComp.lean (`CNode`):
the semantic content (kinds of component, class paths, prior types and parameters, fixed values, operand
names of arithmetic priors, item_number, array shape) plus what every object carries besides (`Meta`: id,
label, assertions). The Lean driver computes from it

  tokens (reflect t)   – through the rebuilt `__dict__` graph            (theorem tokens_reflect_closed_form)
  ctokens t            – the closed form that never looks at Meta        (theorems tokens_ignore_meta, comp_plug_sensitive …)
  tokens (fitVal s t tag)

and all three are compared token by token with the real `Identifier(...).hash_list`. Unlike `c07.pyval` (a dumb
dump of `__dict__`, where the model decides what is visible) nothing here is read from `__dict__` generically
for model objects: which attributes exist (cls first, item_number first, operand stored under its name, …) is the
model's statement about the code."""
import inspect

import numpy as np

from common import f2h

import autofit as af
from autofit.mapper.identifier import Identifier
from autofit.mapper.model import ModelInstance
from autofit.mapper.model_object import ModelObject
from autofit.mapper.prior.abstract import Prior
from autofit.mapper.prior.tuple_prior import TuplePrior
from autofit.mapper.prior_model.array import Array
from autofit.mapper.prior_model.collection import Collection
from autofit.mapper.prior_model.prior_model import Model
from autofit.mapper.prior.arithmetic import compound as C
from autoconf.class_path import get_class_path

KIND = {"UniformPrior": "uniform", "LogUniformPrior": "logUniform", "GaussianPrior": "gaussian", "LogGaussianPrior": "logGaussian"}
BIN = {"SumPrior": "add", "MultiplePrior": "mul", "DivisionPrior": "div", "FloorDivPrior": "floordiv", "ModPrior": "mod", "PowerPrior": "pow"}
UN = {"NegativePrior": "neg", "AbsolutePrior": "abs", "Log": "log", "Log10": "log10"}


class Unmodelled(Exception):
    """a component kind the composition type has no constructor for"""


def _private(k):
    return k.startswith("_") or k in ("id", "paths")


def _meta(x):
    d = {}
    i = x.__dict__.get("id", None)
    d["id"] = int(i) if isinstance(i, (int, np.integer)) and not isinstance(i, bool) and i >= 0 else 0
    lab = x.__dict__.get("_label", None)
    if isinstance(lab, str):
        d["label"] = lab
    asserts = x.__dict__.get("_assertions", None)
    if asserts:
        d["asserts"] = [type(a).__name__ for a in asserts]
    return d


def _public(x, drop=()):
    """public attributes in `__dict__` order (what is private never reaches the model: `skipKey`)"""
    return [[str(k), cnode_of(v)] for k, v in x.__dict__.items() if not _private(str(k)) and str(k) not in drop]


def _flt(v):
    if not isinstance(v, float):
        raise Unmodelled("non-float prior parameter " + type(v).__name__)
    return f2h(float(v))


def cnode_of(x):
    if isinstance(x, Prior):
        kind = KIND.get(type(x).__name__)
        if kind is None:
            raise Unmodelled("prior class " + type(x).__name__)
        d = dict(_meta(x), k="prior", kind=kind, lo=_flt(x.lower_limit), hi=_flt(x.upper_limit))
        if kind in ("gaussian", "logGaussian"):
            d["mean"] = _flt(x.mean)
            d["sigma"] = _flt(x.sigma)
        return d
    if isinstance(x, (bool, np.bool_)):
        return {"k": "bool", "v": bool(x)}
    if isinstance(x, float):
        return {"k": "flt", "v": f2h(float(x))}
    if isinstance(x, (int, np.integer)):
        return {"k": "int", "v": int(x)}
    if isinstance(x, str):
        return {"k": "str", "v": x}
    if x is None:
        return {"k": "none"}
    if inspect.isclass(x) or isinstance(x, property):
        raise Unmodelled("class / property as a value")
    if isinstance(x, C.CompoundPrior):
        op = BIN.get(type(x).__name__)
        if op is None:
            raise Unmodelled(type(x).__name__)
        # operand names: the public attribute names in `__dict__` order (one name if both operands got the same)
        names = [str(k) for k in x.__dict__ if not _private(str(k))]
        if len(names) == 2:
            ln, rn = names
        elif len(names) == 1:
            ln = rn = names[0]
        else:
            raise Unmodelled("compound prior with %d public attributes" % len(names))
        return dict(_meta(x), k="arith", op=op, ln=ln, rn=rn, l=cnode_of(x.left), r=cnode_of(x.right))
    if isinstance(x, C.ModifiedPrior):
        op = UN.get(type(x).__name__)
        if op is None:
            raise Unmodelled(type(x).__name__)
        names = [str(k) for k in x.__dict__ if not _private(str(k))]
        if len(names) != 1:
            raise Unmodelled("modified prior with %d public attributes" % len(names))
        return dict(_meta(x), k="modif", op=op, name=names[0], x=cnode_of(x.prior))
    if isinstance(x, Array):
        if type(x) is not Array:
            raise Unmodelled(type(x).__name__)
        return dict(_meta(x), k="array", shape=[int(s) for s in x.shape], indices=[[int(i) for i in ix] for ix in x.indices],
                    attrs=_public(x, drop=("shape", "indices")))
    if isinstance(x, Collection):
        if type(x) is not Collection:
            raise Unmodelled(type(x).__name__)
        return dict(_meta(x), k="coll", item_number=int(x.item_number), attrs=_public(x, drop=("item_number",)))
    if isinstance(x, Model):
        if type(x) is not Model:
            raise Unmodelled(type(x).__name__)
        return dict(_meta(x), k="model", path=get_class_path(x.cls), attrs=_public(x, drop=("cls",)))
    if isinstance(x, TuplePrior):
        return dict(_meta(x), k="tuple", attrs=_public(x))
    if isinstance(x, ModelInstance):
        if type(x) is not ModelInstance:
            raise Unmodelled(type(x).__name__)
        return dict(_meta(x), k="minst", attrs=_public(x))
    if isinstance(x, ModelObject):
        raise Unmodelled("model object " + type(x).__name__)
    if hasattr(x, "__dict__") and not inspect.isfunction(x) and not inspect.ismodule(x):
        if hasattr(x, "__identifier_fields__") or hasattr(x, "__exclude_identifier_fields__"):
            raise Unmodelled("instance with identifier field selection")
        try:
            ctor = list(inspect.getfullargspec(x.__class__).args)
        except TypeError:
            ctor = []
        return {"k": "inst", "cls": x.__class__.__name__, "ctor": ctor,
                "dict": [[str(k), {"k": "none"} if _private(str(k)) else cnode_of(v)] for k, v in x.__dict__.items()]}
    if isinstance(x, dict):
        raise Unmodelled("dict value")
    if isinstance(x, (list, tuple, np.ndarray)):
        return {"k": "seq", "items": [cnode_of(v) for v in x]}
    raise Unmodelled(type(x).__name__)


def _first_diff(impl, model, tokens_equal):
    k = next((j for j, (a, b) in enumerate(zip(impl, model)) if not tokens_equal([a], [b])), min(len(impl), len(model)))
    return k, {"at": k, "impl": impl[max(0, k - 3):k + 3], "len": len(impl)}, {"model": model[max(0, k - 3):k + 3], "len": len(model)}


def correspond_comp(ctx, model, search, tag, case, pyval, tokens_equal):
    """real hash lists vs the composition route of the Lean model"""
    try:
        node = cnode_of(model)
    except Unmodelled as e:
        ctx.hit("comp-unmodelled:" + str(e)[:40])
        return
    req = {"p": "C07", "kind": "comp", "node": node, "search": pyval(search)}
    if tag is not None:
        req["tag"] = tag
    ans = ctx.lean.ask(req)
    if "driver_error" in ans:
        ctx.disagree("driver-comp", case, None, ans)
        return
    ctx.hit("comp-compared")
    impl = Identifier(model).hash_list
    for key, what in (("tokens", "reflect"), ("ctokens", "closed-form")):
        if not tokens_equal(impl, ans[key]):
            _, a, b = _first_diff(impl, ans[key], tokens_equal)
            ctx.disagree(f"C07.comp.{what}", case, a, b)
            return
    fit = [search, model] + ([tag] if tag is not None else [])
    impl_fit = Identifier(fit).hash_list
    if case.get("label") != "replay":
        r = correspond_join(ctx, fit, case)
        if r is not None:
            note_fit(ctx, {k: case.get(k) for k in ("program", "search", "tag")}, *r)
    if not tokens_equal(impl_fit, ans["fit"]):
        _, a, b = _first_diff(impl_fit, ans["fit"], tokens_equal)
        ctx.disagree("C07.comp.fit", case, a, b)
    # the parameters of the composition (what `sharing pattern` is about): the distinct prior ids at its places
    real_ids = sorted({int(p.id) for p in model.priors})
    if sorted(set(ans["prior_ids"])) != real_ids:
        ctx.disagree("C07.comp.prior-ids", case, real_ids, sorted(set(ans["prior_ids"])))


# ---------------------------------------------------------------------------------------------
# the text that is hashed (lean/AFModel/IdentJoin.lean)


def correspond_join(ctx, obj, case):
    """`".".join(hash_list)` and its md5 against the model's join of the same tokens; the dot-free pieces"""
    import hashlib

    ident = Identifier(obj)
    hl = list(ident.hash_list)
    ans = ctx.lean.ask({"p": "C07", "kind": "join", "tokens": hl})
    if "driver_error" in ans:
        ctx.disagree("driver-join", case, None, ans)
        return None
    ctx.hit("join-compared")
    text = ".".join(hl)
    if ans["joined"] != text or hashlib.md5(ans["joined"].encode("utf-8")).hexdigest() != str(ident):
        ctx.disagree("C07.join.text", case, {"text": text[-80:], "id": str(ident)}, {"text": ans["joined"][-80:]})
    pieces = [p for t in hl for p in t.split(".")]
    if ans["pieces"] != pieces:
        ctx.disagree("C07.join.pieces", case, pieces[-12:], ans["pieces"][-12:])
    if ans["dotfree"] != all("." not in t for t in hl):
        ctx.disagree("C07.join.dotfree", case, not ans["dotfree"], ans["dotfree"])
    return str(ident), hl, ans["pieces"]


def note_fit(ctx, case, ident, hl, pieces):
    """across all fits met in a run: the same identifier for different token lists is a collision (two different
    fits claiming the same output) - through the join when the pieces coincide (join_eq_iff_pieces)"""
    seen = ctx.__dict__.setdefault("_c07_seen_fits", {})
    old = seen.setdefault(ident, (hl, case))
    if old[0] != hl:
        through_join = [p for t in old[0] for p in t.split(".")] == pieces
        ctx.fail("C07-join-ambiguous" if through_join else "C07-md5-collision",
                 "two fits with different token lists have the same identifier", {"label": "collision", "a": old[1], "b": case},
                 {"identifier": ident, "tokens_a": old[0][-8:], "tokens_b": hl[-8:]})


def _fit_of(spec, mk_search):
    import gen_comp

    model = gen_comp.run_program(spec["program"])["root"]
    search = mk_search(spec.get("search") or {"cls": "LBFGS", "kw": {}, "extra": {}})
    tag = spec.get("tag")
    return [search, model] + ([tag] if tag is not None else [])


def join_collisions(ctx, mk_search):
    """corpus/C07/pairs/*.json: pairs of different fits; the property says their identifiers differ"""
    import json
    from common import VERIF

    for f in sorted((VERIF / "corpus" / "C07" / "pairs").glob("*.json")):
        pair = json.loads(f.read_text())
        case = {"label": "pair:" + f.name, "a": pair["a"], "b": pair["b"]}
        fa, fb = _fit_of(pair["a"], mk_search), _fit_of(pair["b"], mk_search)
        ra, rb = correspond_join(ctx, fa, case), correspond_join(ctx, fb, case)
        if ra is None or rb is None:
            continue
        ctx.hit("pair-compared")
        if ra[1] == rb[1]:
            ctx.disagree("C07.pair-not-different", case, ra[1][-8:], rb[1][-8:])
            continue
        if ra[0] == rb[0]:
            ctx.fail(pair.get("classifier", "C07-join-ambiguous") if ra[2] == rb[2] else "C07-md5-collision",
                     "two different fits have the same identifier: " + pair.get("note", ""), case,
                     {"identifier": ra[0], "tokens_a": ra[1][-8:], "tokens_b": rb[1][-8:]})


# ---------------------------------------------------------------------------------------------
# searches against the generated table (lean/AFModel/Generated/C07.lean, lean/AFModel/IdentSearch.lean)


def correspond_search(ctx, search, case, pyval, tokens_equal):
    """`Identifier(search).hash_list` vs tokens (searchVal row settings), row looked up by class name in the table
    generated from the source; the settings are the search's attributes (identifying or not - the model selects)"""
    cls = type(search)
    settings = {}
    for k, v in search.__dict__.items():
        if isinstance(k, str) and not _private(k) and (v is None or isinstance(v, (bool, int, float, str))):
            settings[k] = v
    for f in getattr(cls, "__identifier_fields__", ()):
        try:
            settings[str(f)] = getattr(search, f)
        except AttributeError:
            pass
    ans = ctx.lean.ask({"p": "C07", "kind": "search", "cls": cls.__name__, "settings": [[k, pyval(v)] for k, v in settings.items()]})
    if "driver_error" in ans:
        ctx.disagree("driver-search", case, None, ans)
        return
    if not ans.get("known"):
        ctx.disagree("C07.search-table.class-missing", case, cls.__name__, None)
        return
    ctx.hit("search-table-compared")
    impl = Identifier(search).hash_list
    if not tokens_equal(impl, ans["tokens"]):
        _, a, b = _first_diff(impl, ans["tokens"], tokens_equal)
        ctx.disagree("C07.search-table.tokens", case, a, b)
    if list(ans["idf"]) != [str(f) for f in cls.__identifier_fields__]:
        ctx.disagree("C07.search-table.stale", case, list(cls.__identifier_fields__), ans["idf"])
