"""C19 — opening an older database migrates it exactly once to the current schema.

Every historic database shape (created at revision k by the mapping of that time / migrated to k by older
code / created by today's create_all with or without the junk column) x every state of the `revision`
table (absent, empty, NULL row, stamped with the pinned id of k, unknown id) x every history
`open [commit] close` up to the tier's depth (and interrupted first opens) is built as a real sqlite file
holding real fits, driven through `autofit.database.open_database` / `Aggregator.from_database`, and

 C  compared with the Lean model (`AF.Migrate.runHistory`): statements attempted with their success, durable
    schema (`PRAGMA table_info`), durable content of `revision`;
 O  judged by the property sentence on the real outputs: current schema reached, stamped with the current
    revision, exactly the missing (pinned) steps executed once and in order, nothing stale left, rows
    unchanged, pre-existing fits readable and every current feature usable through the API, no change at all
    on a current database and after the first open.
"""
import gc
import os
import json
import shutil
import sqlite3
from pathlib import Path

import numpy as np
from sqlalchemy import event
from sqlalchemy.engine import Engine

import c19_lib as L
import tables_c19 as T
from common import VERIF, scratch_dir

import autofit as af
from autofit import database as db
from autofit.database.migration.steps import migrator

RULE = (
    "historic database files (created at / migrated to each pinned revision, today's create_all with and "
    "without junk column) x revision-table state (none/empty/null/stamped/unknown) x every open[commit]close "
    "history up to the tier depth, plus interrupted first opens; non-trivial = a use of the file in which at "
    "least one migration statement is attempted, or any use after the first; distinct = (shape, revision "
    "state, crash point, history)"
)

UNKNOWN_ID = "0123456789abcdef0123456789abcdef"


class Crash(BaseException):
    """simulated death of the process in the middle of `open_database`"""


class Rec:
    events = None
    crash_at = None
    nstep = 0
    conns = []
    step_texts = set()
    routes = {}


@event.listens_for(Engine, "before_cursor_execute")
def _before(conn, cursor, statement, parameters, context, executemany):
    if Rec.events is None:
        return
    sql = L.norm_sql(statement)
    if conn not in Rec.conns:
        Rec.conns.append(conn)
    kind = "other"
    up = sql.upper()
    if sql in Rec.step_texts:
        kind = "step"
        if Rec.crash_at is not None and Rec.nstep >= Rec.crash_at:
            raise Crash()
        Rec.nstep += 1
    elif up.startswith(("UPDATE REVISION", "INSERT INTO REVISION")):
        vals = list(parameters.values()) if isinstance(parameters, dict) else list(parameters or [])
        kind = "stamp" if any(v is not None for v in vals) else "rev-init"
    elif up.startswith("CREATE TABLE REVISION"):
        kind = "rev-create"
    elif up.startswith(("ALTER ", "CREATE ", "DROP ")):
        kind = "ddl-other"
    Rec.events.append({"kind": kind, "sql": sql, "ok": True})


@event.listens_for(Engine, "handle_error")
def _on_error(ectx):
    if Rec.events is None:
        return
    sql = L.norm_sql(ectx.statement or "")
    for e in reversed(Rec.events):
        if e.get("sql") == sql:
            e["ok"] = False
            break


@event.listens_for(Engine, "commit")
def _on_commit(conn):
    if Rec.events is not None:
        Rec.events.append({"kind": "commit"})


def observe_session(path, commit, crash_at=None):
    """one use of the file through the real API; returns (events, error or None, crashed)"""
    Rec.events, Rec.crash_at, Rec.nstep, Rec.conns = [], crash_at, 0, []
    err, crashed = None, False
    links = []
    try:
        try:
            # an existing file is opened by file name or by URL (the documented form for other back ends):
            # which of the two is used must not matter for an existing database
            import zlib
            by_url = Path(path).exists() and zlib.crc32(Path(path).name.encode()) % 2 == 0
            if os.environ.get("C19_ROUTE"):
                by_url = Path(path).exists() and os.environ["C19_ROUTE"] == "url"
            Rec.routes["url" if by_url else "file-name"] = Rec.routes.get("url" if by_url else "file-name", 0) + 1
            if by_url:
                # (a name ending in .sqlite is always taken as a file name: the URL names a link to the same file)
                link = Path(path).with_suffix(".db")
                if link.exists() or link.is_symlink():
                    link.unlink()
                os.symlink(path, link)
                links.append(link)
                session = db.open_database("sqlite:///" + str(link))
            else:
                session = db.open_database(str(path))
        except Crash:
            crashed = True
            for conn in Rec.conns:
                try:
                    raw = conn.connection.dbapi_connection
                    raw.rollback()
                    raw.close()
                except Exception:
                    pass
            gc.collect()
        except Exception as e:  # the open itself fails
            err = f"{type(e).__name__}: {str(e)[:200]}"
            gc.collect()
        else:
            try:
                if commit:
                    session.commit()
            except Exception as e:
                err = f"commit {type(e).__name__}: {str(e)[:200]}"
            session.close()
            session.bind.dispose()
    finally:
        events, Rec.events, Rec.crash_at = Rec.events, None, None
        for link in links:
            link.unlink(missing_ok=True)
    return events, err, crashed


# ---------------------------------------------------------------------------------------------
# world: pinned history, live step list, donor data, reference feature results


class World:
    pass


def new_instance():
    return af.Model(af.Gaussian).instance_from_vector([1.0, 2.0, 3.0])


def new_samples(model):
    return af.Samples(
        model=model,
        sample_list=[
            af.Sample(log_likelihood=ll, log_prior=0.0, weight=w,
                      kwargs={("centre",): 1.0 + ll, ("normalization",): 2.0, ("sigma",): 3.0})
            for ll, w in ((1.0, 0.25), (2.5, 0.75))
        ],
    )


def make_donor(path):
    """a database created and filled by the current code with everything a fit can hold"""
    from astropy.io import fits as afits

    session = db.open_database(str(path))
    model = af.Model(af.Gaussian)
    fit = db.Fit(id="fit_a", is_complete=True, unique_tag="tag_a", model=model, instance=new_instance(),
                 info={"a": "b"}, name="donor_name", path_prefix="donor/prefix", max_log_likelihood=3.5)
    fit["p"] = [1, 2]
    fit.samples = new_samples(model)
    fit.latent_samples = new_samples(model)
    fit.named_instances["donor_ni"] = new_instance()
    fit.set_json("dj", {"k": [1, 2]})
    fit.set_array("da", np.arange(4.0).reshape(2, 2))
    fit.set_hdu("dh", afits.PrimaryHDU(np.arange(6.0).reshape(3, 2)))
    child = db.Fit(id="fit_b", is_complete=False, unique_tag="tag_b", parent=fit, is_grid_search=False)
    session.add(fit)
    session.add(child)
    session.commit()
    session.close()
    session.bind.dispose()


def guarded(f):
    try:
        return f()
    except Exception as e:
        return f"ERR:{type(e).__name__}"


def arr_repr(a):
    return None if a is None else [list(np.shape(a)), np.asarray(a).tobytes().hex()]


def api_snapshot(agg):
    """what a user can read of the pre-existing fits"""
    out = {}
    for f in sorted(agg.fits, key=lambda x: x.id):
        out[f.id] = {
            "is_complete": guarded(lambda: f.is_complete),
            "unique_tag": guarded(lambda: f.unique_tag),
            "name": guarded(lambda: f.name),
            "path_prefix": guarded(lambda: f.path_prefix),
            "max_log_likelihood": guarded(lambda: f.max_log_likelihood),
            "info": guarded(lambda: f.info),
            "prior_count": guarded(lambda: f.model.prior_count if f.model is not None else None),
            "instance": guarded(lambda: None if f.instance is None else [type(f.instance).__name__, f.instance.centre]),
            "pickle": guarded(lambda: f["p"] if "p" in f else None),
            "children": guarded(lambda: sorted(c.id for c in f.children)),
            "samples": guarded(lambda: None if f.samples is None else f.samples.max_log_likelihood_sample.log_likelihood),
            "latent": guarded(lambda: None if f.latent_samples is None else f.latent_samples.max_log_likelihood_sample.log_likelihood),
            "named": guarded(lambda: sorted(
                [ni.name, None if ni.instance is None else ni.instance.centre] for ni in f._named_instances)),
            "json": guarded(lambda: sorted((j.name, j.string) for j in f.jsons)),
            "array": guarded(lambda: sorted((a.name, arr_repr(a.array)) for a in f.arrays if type(a).__name__ == "Array")),
            "hdu": guarded(lambda: sorted((h.name, arr_repr(h.array)) for h in f.hdus)),
        }
    return out


FEATURES = ("naming", "max_log_likelihood", "named_instance", "json", "array", "hdu", "latent_samples")


def feature_smoke(path):
    """read the existing fits and use every current feature through the API; returns (snapshot, results)"""
    from astropy.io import fits as afits

    agg = af.Aggregator.from_database(str(path), top_level_only=False)
    session = agg.session
    res = {}
    try:
        snap = guarded(lambda: api_snapshot(agg))
        fit = guarded(lambda: [f for f in agg.fits if f.id == "fit_a"][0])
        if isinstance(fit, str):
            return snap, {k: "ERR:no-fit " + fit for k in FEATURES}

        def use(name, setter):
            try:
                setter()
                session.commit()
                res[name] = "set"
            except Exception as e:
                session.rollback()
                res[name] = f"ERR:set:{type(e).__name__}:{str(e)[:90]}"

        def naming():
            fit.name = "nm2"
            fit.path_prefix = "pp2"

        use("naming", naming)
        use("max_log_likelihood", lambda: setattr(fit, "max_log_likelihood", 9.25))
        use("named_instance", lambda: fit.named_instances.__setitem__("smoke", new_instance()))
        use("json", lambda: fit.set_json("sj", {"x": 1}))
        use("array", lambda: fit.set_array("sa", np.arange(6.0).reshape(2, 3)))
        use("hdu", lambda: fit.set_hdu("sh", afits.PrimaryHDU(np.ones((2, 2)))))
        use("latent_samples", lambda: setattr(fit, "latent_samples", new_samples(af.Model(af.Gaussian))))
    finally:
        session.close()
        session.bind.dispose()
    agg = af.Aggregator.from_database(str(path), top_level_only=False)
    try:
        fit = guarded(lambda: [f for f in agg.fits if f.id == "fit_a"][0])
        if isinstance(fit, str):
            return snap, {k: "ERR:no-fit-after " + fit for k in FEATURES}
        readers = {
            "naming": lambda: [fit.name, fit.path_prefix, [f.id for f in agg.query(agg.search.name == "nm2").fits]],
            "max_log_likelihood": lambda: [fit.max_log_likelihood, [f.id for f in agg.order_by(agg.search.max_log_likelihood).fits][:1]],
            "named_instance": lambda: fit.named_instances["smoke"].centre,
            "json": lambda: fit.get_json("sj"),
            "array": lambda: arr_repr(fit.get_array("sa")),
            "hdu": lambda: arr_repr(fit.get_hdu("sh").data),
            "latent_samples": lambda: fit.latent_samples.max_log_likelihood_sample.log_likelihood,
        }
        for k, rd in readers.items():
            if res.get(k) == "set":
                try:
                    res[k] = json.loads(json.dumps(rd(), default=str))
                except Exception as e:
                    res[k] = f"ERR:get:{type(e).__name__}:{str(e)[:90]}"
    finally:
        agg.session.close()
        agg.session.bind.dispose()
    return snap, res


def build_world(ctx):
    w = World()
    w.dir = scratch_dir() / "c19"
    w.dir.mkdir(exist_ok=True)
    w.history = L.load_history()
    w.pinned_ids = w.history["revision_ids"]
    w.pinned_sql = [[L.norm_sql(s) for s in st["strings"]] for st in w.history["steps"]]
    w.live_sql = [[L.norm_sql(s) for s in st.strings] for st in migrator._steps]
    w.live_ids = [r.id for r in migrator.revisions]
    w.latest = migrator.latest_revision.id
    w.legacy_latest = int(w.history["legacy_latest"])  # what an unrepaired installation stamps
    Rec.step_texts = {s for st in w.pinned_sql + w.live_sql for s in st}
    # all statements in live order, and the renames/drops of the history (stale names)
    w.live_flat = [s for st in w.live_sql for s in st]
    w.stale = []  # (table, column) that must not survive a migration
    w.renames = {}  # (table, old) -> new
    for st in w.pinned_sql:
        for s in st:
            p = L.parse_stmt(s)
            if p["k"] == "rename":
                w.stale.append((p["t"], p["a"]))
                w.renames[(p["t"], p["a"])] = p["b"]
            elif p["k"] == "drop":
                if (p["t"], p["c"]) not in w.stale:
                    w.stale.append((p["t"], p["c"]))
    w.orm = {t: cols for t, cols in L.names_of(L.orm_rich(db.Base))}
    w.variants = {name: (rich, extra) for name, rich, extra in T.variants(db.Base, w.history)}
    # donor + reference
    w.donor = w.dir / "donor.sqlite"
    make_donor(w.donor)
    w.donor_rows = L.read_data(w.donor, raw=True)
    o = w.donor_rows["object"]
    ids = {i for i, a, b in zip(o["id"], o["samples_for_id"], o["latent_samples_for_id"]) if a is not None or b is not None}
    while True:
        more = {i for i, p in zip(o["id"], o["parent_id"]) if p in ids} - ids
        if not more:
            break
        ids |= more
    w.sample_object_ids = ids
    w.object_subtables = {t for t, cols in L.orm_rich(db.Base) for c in cols
                          if c["name"] == "id" and any(fk[0] in ("object", "array") for fk in c["fks"])}
    ref = w.dir / "reference.sqlite"
    shutil.copy(w.donor, ref)
    w.ref_snapshot, w.ref_features = feature_smoke(ref)
    w.counter = 0
    w.fail_counts = {}
    return w


def tmp(w, tag="f"):
    """a file name for the next database; every third one is a name used before (the earlier file is gone):
    what an open does is decided by the file found there now, not by what this process saw under that name"""
    w.counter += 1
    if w.counter % 3 == 0:
        for k in range(64):
            p = w.dir / f"{tag}_again{k}.sqlite"
            if not p.exists():  # free again: whoever used it has removed it
                return p
    return w.dir / f"{tag}{w.counter}.sqlite"


def build_file(w, path, variant, rev):
    rich, extra = w.variants[variant]
    c = sqlite3.connect(str(path))
    for s in L.create_sql(rich):
        c.execute(s)
    for s in extra:
        try:
            c.execute(s)
        except sqlite3.OperationalError:
            pass
    # the data a database of that age could hold: donor rows, columns that exist here
    inv = {(t, b): a for (t, a), b in w.renames.items()}
    tables = [t for (t,) in c.execute("select name from sqlite_master where type='table'")]
    for t in tables:
        if t not in w.donor_rows:
            continue
        cols = [r[1] for r in c.execute(f'pragma table_info("{t}")')]
        d = w.donor_rows[t]
        n = len(next(iter(d.values()))) if d else 0
        keep = list(range(n))
        if t == "object":  # no rows of kinds whose own table does not exist yet
            keep = [i for i in keep if not (d["type"][i] in ("array", "hdu") and d["type"][i] not in tables)]
            if "array" not in tables:  # samples are stored through arrays: an older file holds none in this form
                keep = [i for i in keep if d["id"][i] not in w.sample_object_ids]
        elif t in w.object_subtables:  # rows of the joined-inheritance tables follow their object row
            gone = {i for i, ty in zip(w.donor_rows["object"]["id"], w.donor_rows["object"]["type"])
                    if (ty in ("array", "hdu") and ty not in tables) or ("array" not in tables and i in w.sample_object_ids)}
            keep = [i for i in keep if d["id"][i] not in gone]
        src = []
        for col in cols:
            if col in d:
                src.append(d[col])
            elif (t, col) in w.renames and w.renames[(t, col)] in d and w.renames[(t, col)] not in cols:
                src.append(d[w.renames[(t, col)]])
            else:
                src.append([None] * n)
        for i in keep:
            c.execute(f'insert into "{t}" ({", ".join(chr(34) + x + chr(34) for x in cols)}) values ({", ".join("?" * len(cols))})',
                      [s[i] for s in src])
    if rev != "none":
        c.execute("CREATE TABLE revision (revision_id VARCHAR PRIMARY KEY)")
    if rev == "null":
        c.execute("INSERT INTO revision (revision_id) VALUES (null)")
    elif rev == "unknown":
        c.execute("INSERT INTO revision (revision_id) VALUES (?)", (UNKNOWN_ID,))
    elif rev.startswith("id:"):
        c.execute("INSERT INTO revision (revision_id) VALUES (?)", (w.pinned_ids[int(rev[3:]) - 1],))
    c.commit()
    c.close()


def variant_rev(name):
    """pinned revision number the shape `name` corresponds to (None: created by today's create_all)"""
    if name in ("F", "FJ"):
        return None
    return int(name[1:])


def start_states(w):
    out = []
    for name in w.variants:
        k = variant_rev(name)
        revs = ["none", "empty", "null", "unknown"]
        if k is None:
            revs.append(f"id:{w.legacy_latest}")
        elif k >= 1:
            revs.append(f"id:{k}")
        for r in revs:
            out.append((name, r))
    return out


# ---------------------------------------------------------------------------------------------
# state, model, oracle


def read_state(path):
    schema, rev = L.read_schema(str(path))
    return {"schema": schema, "rev": rev, "data": L.read_data(str(path))}


def wire_file(state):
    return {"schema": [[t, state["schema"][t]] for t in sorted(state["schema"])], "rev": L.rev_wire(state["rev"])}


def real_log(events):
    return [[L.parse_stmt(e["sql"]), bool(e["ok"])] for e in events if e["kind"] == "step"]


def fail(ctx, w, classifier, what, case, detail=None):
    w.fail_counts[classifier] = w.fail_counts.get(classifier, 0) + 1
    if w.fail_counts[classifier] <= 3:
        ctx.fail(classifier, what, case, detail)


def compare_model(ctx, case, node, state, events, clause="C19.session"):
    impl = {"log": real_log(events), "schema": state["schema"], "rev": L.rev_wire(state["rev"])}
    model = {"log": node["log"], "schema": {t: cols for t, cols in node["schema"]}, "rev": node["rev"]}
    for key in ("log", "rev", "schema"):
        if json.dumps(impl[key], sort_keys=True) != json.dumps(model[key], sort_keys=True):
            ctx.disagree(f"{clause}.{key}", case, impl[key], model[key])
            return False
    return True


def is_subsequence(xs, ys):
    it = iter(ys)
    return all(any(x == y for y in it) for x in xs)


def expected_missing(w, k):
    """statements a database stamped with pinned revision k still needs: pinned steps k+1.., then whatever the
    code has appended since the pin. None when the code's list does not extend the pinned one."""
    n = len(w.pinned_ids)
    if w.live_ids[:n] != w.pinned_ids:
        return None
    return [s for st in w.pinned_sql[k:] for s in st] + [s for st in w.live_sql[n:] for s in st]


def judge_session(ctx, w, case, before, after, events, err, role, stamped_k):
    """the property sentence on one use of a file.
    role: 'migrate' (first use of a database that is not current), 'noop' (a current database, or any use after
    the first), 'fresh' (file did not exist)"""
    steps = [e for e in events if e["kind"] == "step"]
    if err:
        fail(ctx, w, "C19-open-raises", f"open_database raised on a historic database: {err}", case, err)
        return
    other = [e["sql"] for e in events if e["kind"] == "ddl-other"]
    if role != "fresh" and other:
        ctx.disagree("C19.foreign-ddl", case, other[:3], [])
    if role == "noop":
        changed = [k for k in ("schema", "rev", "data") if before[k] != after[k]]
        if steps or changed:
            never = before["rev"] != [w.latest]
            junk = [(t, c) for t, c in w.stale if c in after["schema"].get(t, []) and c not in before["schema"].get(t, [])]
            if never:
                cls, what = "C19-never-stamped", "a migrated database is not stamped with the current revision, so a later open runs the migration again"
            elif junk:
                cls, what = "C19-junk-column", f"re-opening adds the stale column {junk}"
            else:
                cls, what = "C19-not-fixed-point", "opening a database that is at the current revision executes migration statements or changes the file"
            fail(ctx, w, cls, what, case, {"executed": [e["sql"] for e in steps][:12], "changed": changed,
                                           "revision_before": before["rev"], "revision_after": after["rev"]})
        return
    # --- migrate / fresh: current schema reached
    missing = [[t, c] for t, cols in w.orm.items() for c in cols if c not in after["schema"].get(t, [])]
    if missing:
        if missing == [["named_instance", "instance_id"]]:
            fail(ctx, w, "C19-named-instance-column", "after migration the table named_instance lacks the mapped column instance_id", case, missing)
        else:
            fail(ctx, w, "C19-orm-not-covered", f"after the open the mapped schema is not there: missing {missing[:6]}", case, missing)
    if after["rev"] != [w.latest]:
        fail(ctx, w, "C19-never-stamped", "after open+close the database is not stamped with the current revision", case,
             {"revision": after["rev"], "current": w.latest})
    if role == "fresh":
        return
    # --- exactly the missing steps, once, in order
    executed = [e["sql"] for e in steps]
    if stamped_k is not None:
        want = expected_missing(w, stamped_k)
        if want is None or executed != want:
            fail(ctx, w, "C19-steps-not-exact", f"a database stamped with revision {stamped_k} did not get exactly its missing steps, each once, in order",
                 case, {"executed": executed, "expected": want})
    else:
        if not is_subsequence(executed, w.live_flat) or len(set(executed)) != len(executed):
            fail(ctx, w, "C19-steps-not-exact", "migration statements executed out of order or more than once", case, {"executed": executed})
    stale = [[t, c] for t, c in w.stale if c in after["schema"].get(t, [])]
    if stale:
        fail(ctx, w, "C19-junk-column", f"after migration a column that the steps rename away or drop is still there: {stale}", case, stale)
    # the stamp must not be durable before the steps are (observed as order of execution)
    kinds = [e["kind"] for e in events]
    if "stamp" in kinds and "step" in kinds and kinds.index("stamp") < max(i for i, k in enumerate(kinds) if k == "step"):
        fail(ctx, w, "C19-stamp-before-steps", "the revision stamp is written before the last migration statement", case,
             [e.get("sql", "commit") for e in events][:30])
    # --- rows unchanged
    lost = []
    for t, cols in before["data"].items():
        if t not in after["data"]:
            lost.append([t, "*table*"])
            continue
        for c, vals in cols.items():
            c2 = c
            if c not in after["data"][t]:  # renamed (the new name was not there before), else dropped
                c2 = w.renames.get((t, c))
                if c2 in cols:
                    c2 = None
            if c2 is None or c2 not in after["data"][t]:
                if any(v is not None for v in vals):
                    lost.append([t, c])
            elif after["data"][t][c2] != vals:
                lost.append([t, c])
    if lost:
        fail(ctx, w, "C19-data-lost", f"rows/values present before the migration are gone or changed: {lost[:6]}", case, lost)


def expected_snapshot(w, before):
    """what the API must still show of the fits that were in the file before: the donor's snapshot restricted
    to what the old file could hold"""
    exp = json.loads(json.dumps(w.ref_snapshot, default=str))
    sch = before["schema"]
    fitcols = sch.get("fit", [])
    objcols = sch.get("object", [])
    for fid, d in exp.items():
        for col in ("name", "path_prefix", "max_log_likelihood"):
            if col not in fitcols:
                d[col] = None
        if "latent_samples_for_id" not in objcols and "latent_variables_for_id" not in objcols:
            d["latent"] = None
        if "array" not in sch:
            d["samples"] = None
            d["latent"] = None
        if "named_instance" not in sch:
            d["named"] = []
        elif "instance_id" not in sch["named_instance"]:
            d["named"] = [[n, None] for n, _ in d["named"]]
        if "json" not in sch:
            d["json"] = []
        if "array" not in sch:
            d["array"] = []
        if "hdu" not in sch or "array" not in sch:
            d["hdu"] = []
    return exp


def judge_features(ctx, w, case, path, before):
    f = tmp(w, "smoke")
    shutil.copy(path, f)
    try:
        snap, res = feature_smoke(f)
    except Exception as e:
        fail(ctx, w, "C19-feature-open", f"Aggregator.from_database fails on the migrated database: {type(e).__name__}: {str(e)[:160]}", case)
        return
    finally:
        f.unlink(missing_ok=True)
    exp = expected_snapshot(w, before)
    got = json.loads(json.dumps(snap, default=str))
    if got != exp:
        diff = got if isinstance(got, str) else {fid: {k: [v, exp.get(fid, {}).get(k)] for k, v in d.items() if exp.get(fid, {}).get(k) != v} for fid, d in got.items()}
        fail(ctx, w, "C19-fit-unreadable", "a fit stored before the migration reads back differently (or not at all) afterwards", case, diff)
    bad = [k for k in FEATURES if res.get(k) != w.ref_features.get(k)]
    if len(bad) > 2:
        fail(ctx, w, "C19-features-broken", f"features {bad} do not work on the migrated database as on a new one", case,
             {k: {"migrated": res.get(k), "new": w.ref_features.get(k)} for k in bad})
        bad = []
    for k in bad:
        if k == "named_instance" and "instance_id" in str(res.get(k)):
            fail(ctx, w, "C19-named-instance-column", "fit.named_instances cannot be used on a migrated database: no such column named_instance.instance_id",
                 case, res.get(k))
        else:
            fail(ctx, w, f"C19-feature-{k}", f"feature '{k}' does not work on the migrated database as on a new one", case,
                 {"migrated": res.get(k), "new": w.ref_features.get(k)})
    compare_features(ctx, w, case, L.read_schema(str(path))[0], res, "C19.features.migrated")
    ctx.hit("feature-smoke")


# ---------------------------------------------------------------------------------------------
# row contents: the model with rows (`AF.Migrate.runHistoryR` / `interruptedR`, request "rtree")


def enc_value(v):
    """canonical text of a stored value (the model only moves values); None = NULL"""
    import hashlib
    if v is None:
        return None
    if isinstance(v, bool):
        v = int(v)
    if isinstance(v, int):
        s = f"i:{v}"
    elif isinstance(v, float):
        s = "f:" + v.hex()
    elif isinstance(v, bytes):
        s = "b:" + v.hex()
    else:
        s = "t:" + str(v)
    return s if len(s) <= 48 else s[:2] + "#" + hashlib.sha1(s.encode()).hexdigest()[:20]


def tables_of_state(state):
    """{table: [[[column, value], ...] per row in rowid order]} of a real file"""
    out = {}
    for t, cols in state["schema"].items():
        d = state["data"].get(t, {})
        n = len(d[cols[0]]) if cols and cols[0] in d else 0
        out[t] = [[[c, enc_value(d[c][i])] for c in cols] for i in range(n)]
    return out


def rows_wire(state):
    tabs = tables_of_state(state)
    return {"tables": [[t, state["schema"][t], tabs[t]] for t in sorted(state["schema"])], "rev": L.rev_wire(state["rev"])}


def ask_rows(ctx, cfg, state0, depth, crash):
    """the row-level model's answer for one start state: ({path: node with 'tables' resolved}, crash node)"""
    req = {"p": "C19", "q": "rtree", "cfg": cfg, "file": None if state0 is None else rows_wire(state0), "depth": depth}
    if crash is not None:
        req["crash"] = crash
    ans = ctx.lean.ask(req)
    if "driver_error" in ans:
        return None, ans
    if not ans.get("file_wf", False):
        ctx.disagree("C19.rows.wf", {"what": "rows of the file handed to the model do not fit its columns"}, True, False)
    as_dict = lambda tables: {t: rows for t, _cols, rows in tables}
    resolved = {}
    if crash is not None and ans.get("crash"):
        resolved[""] = as_dict(ans["crash"]["tables"])
    elif state0 is not None:
        resolved[""] = tables_of_state(state0)
    nodes = {}
    for n in ans["nodes"]:
        if not n:
            continue
        p = n["path"]
        resolved[p] = resolved.get(p[:-1]) if n["same"] else as_dict(n["tables"])
        nodes[p] = dict(n, tables=resolved[p])
    crash_node = ans.get("crash")
    if crash_node:
        crash_node = dict(crash_node, tables=as_dict(crash_node["tables"]))
    return nodes, crash_node


def check_moved(ctx, case, moved, before, state, clause):
    """`logTrack`: the values a column held before the open are found under the name the model computes
    (RENAME COLUMN), or the column is gone (DROP COLUMN)"""
    for t, c, c2 in moved:
        old = (before["data"].get(t) or {}).get(c)
        if old is None:
            continue
        if c2 is None:
            if c in state["schema"].get(t, []):
                ctx.disagree(f"{clause}.moved", dict(case, column=[t, c]), "still there", "dropped")
                return
        elif (state["data"].get(t) or {}).get(c2) != old:
            ctx.disagree(f"{clause}.moved", dict(case, column=[t, c, c2]), (state["data"].get(t) or {}).get(c2), old)
            return
        ctx.hit("moved-column-checked")


def compare_rows(ctx, case, rnode, state, events, clause="C19.rows", before=None):
    """statements, schema, stamp AND every row of every table of the real file vs the model with rows"""
    if rnode is None:
        ctx.disagree(f"{clause}.model-node-missing", case, None, None)
        return False
    if not compare_model(ctx, case, rnode, state, events, clause=clause):
        return False
    if not rnode.get("wf"):
        ctx.disagree(f"{clause}.wf", case, True, False)
        return False
    impl = tables_of_state(state)
    model = rnode["tables"]
    if json.dumps(impl, sort_keys=True) != json.dumps(model, sort_keys=True):
        bad = sorted(t for t in set(impl) | set(model or {}) if impl.get(t) != (model or {}).get(t))
        t = bad[0]
        ctx.disagree(f"{clause}.table-rows", dict(case, table=t), (impl.get(t) or [])[:3], ((model or {}).get(t) or [])[:3])
        return False
    if before is not None and rnode.get("moved"):
        check_moved(ctx, case, rnode["moved"], before, state, clause)
    ctx.hit("rows-compared")
    return True


def judge_new_columns(ctx, w, case, before, after):
    """a column (or table) the migration added holds nothing on the rows that were there before - unless it is
    the new name of a renamed column"""
    targets = {(t, b) for (t, a), b in w.renames.items()}
    bad = []
    for t, cols in after["schema"].items():
        if t not in before["schema"]:
            if any(len(v) for v in after["data"].get(t, {}).values()):
                bad.append([t, "*rows in a new table*"])
            continue
        for c in cols:
            if c not in before["schema"][t] and (t, c) not in targets:
                if any(v is not None for v in after["data"][t][c]):
                    bad.append([t, c])
    if bad:
        fail(ctx, w, "C19-new-column-not-null", f"columns added by the migration are not NULL on the old rows: {bad[:6]}", case, bad)


# ---------------------------------------------------------------------------------------------
# "all current features work on it": the model's `usable` (request "features") vs using each feature on real files


def model_usable(ctx, schema):
    ans = ctx.lean.ask({"p": "C19", "q": "features", "schema": [[t, schema[t]] for t in sorted(schema)]})
    return None if "driver_error" in ans else ans


def compare_features(ctx, w, case, schema, res, clause):
    """res: feature -> what feature_smoke got; a feature *works* when it gives what it gives on a new database"""
    ans = model_usable(ctx, schema)
    if ans is None:
        ctx.disagree(f"{clause}.driver", case, None, None)
        return
    real = {k: res.get(k) == w.ref_features.get(k) for k in FEATURES}
    model = {k: bool(ans["usable"].get(k)) for k in FEATURES}
    if real != model:
        ctx.disagree(clause, case, {k: [real[k], str(res.get(k))[:80]] for k in FEATURES if real[k] != model[k]},
                     {k: model[k] for k in FEATURES if real[k] != model[k]})
    ctx.hit(f"features-compared:{'all' if all(real.values()) else 'some' if any(real.values()) else 'none'}-work")


def check_features_table(ctx, w):
    """the generated needs are what the mappers say now; every feature the harness uses is in the table"""
    ans = model_usable(ctx, w.orm)
    if ans is None:
        ctx.disagree("C19.features.driver", {}, None, None)
        return
    live = {f: [list(tc) for tc in need] for f, need in T.feature_needs()}
    if json.dumps(ans["needs"], sort_keys=True) != json.dumps(live, sort_keys=True) or sorted(live) != sorted(FEATURES):
        ctx.disagree("C19.generated-table.features", {"what": "feature needs in Generated/C19.lean are not the mappers'"}, live, ans["needs"])
    if not ans["all"]:
        ctx.disagree("C19.features.mapping-unusable", {}, True, ans["usable"])


def unmigrated_features(ctx, w, variant):
    """use every feature on the historic file *as it is* (the migration switched off): works exactly where the
    model says the schema supports it"""
    f = tmp(w, "raw")
    build_file(w, f, variant, "none")
    before = L.read_schema(str(f))
    case = {"variant": variant, "rev": "none", "label": "features-without-migration"}
    migrator.migrate = lambda session: None  # shadows the method on this instance only
    try:
        try:
            _snap, res = feature_smoke(f)
        except Exception as e:
            res = {k: f"ERR:open:{type(e).__name__}" for k in FEATURES}
    finally:
        del migrator.migrate
    after = L.read_schema(str(f))
    f.unlink(missing_ok=True)
    if (after[0], after[1]) != (before[0], before[1]):  # the switch did not hold: nothing to compare
        ctx.hit("unmigrated-probe-not-isolated")
        return
    ctx.case(case, nontrivial=True)
    compare_features(ctx, w, case, before[0], res, "C19.features.unmigrated")


# ---------------------------------------------------------------------------------------------
# one start state: the whole history tree


def run_tree(ctx, w, variant, rev, depth, cfg, crash=None, smoke="first", only_path=None, label="gen"):
    """variant None = the file does not exist. only_path: a string over n/c restricting the tree to one branch."""
    f0 = tmp(w)
    desc = {"variant": variant, "rev": rev, "crash": crash, "label": label}
    if variant is not None:
        build_file(w, f0, variant, rev)
        state0 = read_state(f0)
        file_wire = wire_file(state0)
    else:
        state0, file_wire = None, None
    req = {"p": "C19", "q": "tree", "cfg": cfg, "file": file_wire, "depth": depth}
    if crash is not None:
        req["crash"] = crash
    ans = ctx.lean.ask(req)
    if "driver_error" in ans:
        ctx.disagree("C19.driver", desc, None, ans)
        return
    nodes = {n["path"]: n for n in ans["nodes"] if n}
    rnodes, rcrash = ask_rows(ctx, cfg, state0, depth, crash)  # the model with rows
    if rnodes is None:
        ctx.disagree("C19.driver.rows", desc, None, rcrash)
        return
    stamped_k = int(rev[3:]) if (rev or "").startswith("id:") else None
    first_role = "fresh" if variant is None else "migrate"
    if variant is not None and state0["rev"] == [w.latest]:
        first_role = "noop"
    before = state0
    if crash is not None:
        events, err, crashed = observe_session(f0, False, crash_at=crash)
        if not crashed:  # fewer statements than the crash point: an ordinary open, covered elsewhere
            ctx.hit("interrupt-not-reached")
            f0.unlink(missing_ok=True)
            return
        after = read_state(f0)
        case = dict(desc, path="", phase="interrupted-open")
        ctx.case(case, nontrivial=True)
        ctx.hit("interrupted-open")
        compare_model(ctx, case, ans["crash"], after, events, clause="C19.interrupted")
        compare_rows(ctx, case, rcrash, after, events, clause="C19.rows.interrupted", before=state0)
        before = after
        stamped_k = None  # what follows is judged by its net effect

    def visit(path_file, prefix, before, role):
        for c in (False, True):
            p = prefix + ("c" if c else "n")
            if only_path is not None and not only_path.startswith(p):
                continue
            f = tmp(w)
            if before is not None:
                shutil.copy(path_file, f)
            events, err, _ = observe_session(f, c)
            after = read_state(f)
            case = dict(desc, path=p)
            steps = [e for e in events if e["kind"] == "step"]
            nontrivial = bool(steps) or len(p) > 1
            ctx.case(case, nontrivial=nontrivial,
                     sample={"start": desc, "history": p, "attempted": [[e["sql"][:60], e["ok"]] for e in steps][:12],
                             "revision_after": after["rev"]} if steps and len(ctx.samples) < 4 and ctx.rng.random() < 0.05 else None)
            ctx.hit(f"session:{role}")
            ctx.hit(f"attempted:{min(len(steps), 12)}")
            if p in nodes:
                compare_model(ctx, case, nodes[p], after, events)
            else:
                ctx.disagree("C19.model-node-missing", case, None, None)
            compare_rows(ctx, case, rnodes.get(p), after, events, before=before)
            if role == "migrate" and not err:
                judge_new_columns(ctx, w, case, before, after)
            judge_session(ctx, w, case, before, after, events, err, role, stamped_k if len(p) == 1 else None)
            if role != "noop" and variant is not None and (smoke == "all" or (smoke == "first" and not c)):
                judge_features(ctx, w, case, f, state0)  # expectations: what the file held originally
            if len(p) < depth:
                visit(f, p, after, "noop")
            f.unlink(missing_ok=True)

    visit(f0, "", before, first_role)
    if f0.exists():
        f0.unlink()


# ---------------------------------------------------------------------------------------------


def probe_cfg(ctx, w):
    """which repairs does the code under test have? (decides which model variant it is compared with;
    the oracle does not depend on it)"""
    f = tmp(w, "probe")
    observe_session(f, False)
    create_stamps = L.read_schema(str(f))[1] == [w.latest]
    f = tmp(w, "probe")
    build_file(w, f, "A0", "none")
    observe_session(f, False)
    migrate_commits = bool(L.read_schema(str(f))[1])
    f = tmp(w, "probe")
    build_file(w, f, "A0", "empty")
    observe_session(f, True)
    upsert = bool(L.read_schema(str(f))[1])
    return {"migrateCommits": migrate_commits, "stampUpsert": upsert, "createStamps": create_stamps}


def check_table(ctx, w):
    """the generated Lean table must be the code's current step list / mapping, and extend the pinned history"""
    t = ctx.lean.ask({"p": "C19", "q": "table"})
    if "driver_error" in t:
        ctx.disagree("C19.table", {}, None, t)
        return
    live = {
        "steps": [{"id": s.id, "stmts": [L.parse_stmt(x) for x in s.strings]} for s in migrator._steps],
        "rev_ids": w.live_ids,
        "latest": w.latest,
        "orm": [[t_, c] for t_, c in L.names_of(L.orm_rich(db.Base))],
    }
    for k, v in live.items():
        if json.dumps(t.get(k), sort_keys=True) != json.dumps(v, sort_keys=True):
            ctx.disagree(f"C19.generated-table.{k}", {"what": "lean/AFModel/Generated/C19.lean is not the code's table"}, v, t.get(k))
    if not t.get("wf"):
        ctx.disagree("C19.table-wf", {}, "step ids / revision ids not distinct", None)
    # the shapes the theorems quantify over are the shapes the harness builds
    for name, (rich, extra) in w.variants.items():
        c = T.materialise(rich, extra)
        got = T.names_from_conn(c)
        c.close()
        if json.dumps(got) != json.dumps(t["variants"].get(name)):
            ctx.disagree("C19.generated-variants", {"variant": name}, got, t["variants"].get(name))
    ctx.notes["steps"] = len(w.live_ids)
    ctx.notes["pinned_steps"] = len(w.pinned_ids)


def run_corpus_case(ctx, w, c, cfg, label):
    run_tree(ctx, w, c.get("variant"), c.get("rev"), max(len(c.get("path", "n")), 1), cfg, crash=c.get("crash"),
             smoke="all", only_path=c.get("path", "n"), label=label)


def run(ctx):
    ctx.rule = RULE
    ctx.assumptions = [
        "sqlite file databases through the stdlib driver (the only back end installed); one session at a time",
        "historic shapes are derived from today's mapping by undoing the pinned step history (harness/c19_history.json)",
        "column *names* are modelled, not types/constraints; ALTER TABLE DROP COLUMN is modelled for unconstrained columns",
    ]
    w = build_world(ctx)
    check_table(ctx, w)
    cfg = probe_cfg(ctx, w)
    ctx.notes["flags_observed"] = cfg
    for f in sorted((VERIF / "corpus" / "C19").glob("*.json")):
        run_corpus_case(ctx, w, json.loads(f.read_text()), cfg, f.name)
    states = start_states(w)
    ctx.notes["start_states"] = len(states) + 1
    thorough = ctx.tier == "thorough"
    depth = 4 if thorough else 2
    deep = set(ctx.rng.sample(range(len(states)), k=min(len(states), 12))) if not thorough else set()
    smoke_idx = set(range(len(states))) if thorough else set(ctx.rng.sample(range(len(states)), k=min(len(states), 30)))
    for i, (variant, rev) in enumerate(states):
        d = 4 if i in deep else depth
        run_tree(ctx, w, variant, rev, d, cfg,
                 smoke=("all" if thorough else "first") if i in smoke_idx else "none")
    run_tree(ctx, w, None, None, 4 if thorough else 3, cfg)
    # interrupted first opens
    nstmt = len(w.live_flat)
    crash_states = [s for s in states if s[1] in ("none", "empty", "null") or s[1].startswith("id:")]
    picks = crash_states if thorough else ctx.rng.sample(crash_states, k=min(len(crash_states), 16))
    for variant, rev in picks:
        js = range(0, nstmt) if thorough else ctx.rng.sample(range(0, nstmt), k=2)
        for j in js:
            run_tree(ctx, w, variant, rev, 2, cfg, crash=j, smoke="none")
    # features on the historic files without migration (two-sided tie of `usable`)
    check_features_table(ctx, w)
    names = list(w.variants)
    fixed = [n for n in ("A8", "F") if n in names]  # a shape on which some features work and others do not; a current one
    for variant in (names if thorough else fixed + ctx.rng.sample([n for n in names if n not in fixed], k=min(len(names) - len(fixed), 5))):
        unmigrated_features(ctx, w, variant)
    ctx.notes["exhaustive"] = bool(thorough)
    ctx.notes["open_routes"] = Rec.routes
    ctx.notes["history_depth"] = depth
    ctx.notes["failure_counts"] = dict(w.fail_counts)


def replay(ctx, payload):
    case = payload.get("case") or (payload.get("disagreements") or [{}])[0].get("case") or {}
    w = build_world(ctx)
    cfg = probe_cfg(ctx, w)
    if not case.get("variant") and case.get("variant") is not None:
        return
    c = {"variant": case.get("variant"), "rev": case.get("rev"), "path": case.get("path") or "n", "crash": case.get("crash")}
    run_corpus_case(ctx, w, c, cfg, "replay")
