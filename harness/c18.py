"""C18 — expectation-propagation bookkeeping is exact.

generate a declarative factor graph (analysis factors over models sharing priors across and within
factors, hierarchical factors, prior factors on/off) -> real `FactorGraphModel(...).mean_field_approximation()`,
then a sequence of factor updates through the real `EPMeanField.factor_approximation` /
`project_mean_field` / `ApproxUpdater.update_model_approx` (scalar, per-variable and dynamic damping,
fresh and stale approximations, proper and improper projections), or a whole scripted
`EPOptimiser.run` / `FactorGraphModel.optimise`; every message, cavity, model and global
distribution (natural parameters) is compared with the Lean model `AF.EP` (exact rationals) and the
property sentence is re-evaluated directly on the real outputs with numpy (oracle)."""
import json
from fractions import Fraction

import numpy as np

from common import f2h, h2f, VERIF, LeanError

import autofit as af
from autofit import exc
from autofit import graphical as g
from autofit.graphical.declarative.factor.prior import PriorFactor
from autofit.graphical.declarative.result import EPResult, HierarchicalResult
from autofit.graphical.expectation_propagation import (
    AbstractFactorOptimiser,
    EPHistory,
    EPOptimiser,
    FactorHistory,
)
from autofit.graphical.expectation_propagation.optimiser import (
    DynamicUpdater,
    FactorUpdater,
    SimplerUpdater,
)
from autofit.graphical.mean_field import MeanField
from autofit.graphical.utils import Status, StatusFlag

RULE = (
    "random declarative graphs: 1-4 analysis factors over a Model or a Collection of two Models "
    "(3-6 prior places each, constants mixed in), priors drawn from a pool of 2-8 Gaussian / Uniform / "
    "LogUniform priors so that they are shared across factors and repeated within a factor, 0-2 "
    "hierarchical factors with 1-3 drawn variables, prior factors on/off, some factors attached with .add(); then 0-20 factor updates "
    "(any factor incl. prior factors; scalar damping 1 / (0,1) / >1 / 0, per-variable damping incl. "
    "exactly 0 and 1, DynamicUpdater; approximations fresh or 1-3 updates stale; new model "
    "distributions that make the projection proper or improper) or a scripted EPOptimiser run / "
    "FactorGraphModel.optimise of 1-3 rounds (Simpler / Dynamic updater, failing and raising factor optimisers); "
    "plus histories of 0-7 statuses; non-trivial = a variable is shared by >= 2 model factors and >= 2 updates were "
    "made; distinct = hash of (graph program, update list)"
)

REL = 1e-9
BAD = StatusFlag.BAD_PROJECTION


class Gauss:
    def __init__(self, centre=0.0, normalization=1.0, sigma=1.0):
        self.centre = centre
        self.normalization = normalization
        self.sigma = sigma


class Const(af.Analysis):
    def log_likelihood_function(self, instance):
        return -1.0


ATTRS = ("centre", "normalization", "sigma")

# ---------------------------------------------------------------------------------------------
# programs


def gen_program(rng, edge=False):
    n_pool = rng.randint(2, 8)
    priors = []
    for _ in range(n_pool):
        r = rng.random()
        if r < 0.6:
            priors.append({"kind": "G", "a": round(rng.uniform(-20, 20), 3), "b": round(rng.uniform(0.2, 8.0), 3)})
        elif r < 0.85:
            lo = round(rng.uniform(-10, 10), 2)
            priors.append({"kind": "U", "a": lo, "b": lo + round(rng.uniform(0.5, 20), 2)})
        else:
            lo = round(rng.uniform(0.01, 1.0), 3)
            priors.append({"kind": "LU", "a": lo, "b": lo * round(rng.uniform(5, 200), 1)})
    hot = rng.randrange(n_pool)  # a prior that tends to be shared

    def pick():
        if rng.random() < 0.3:
            return ["p", hot]
        return ["p", rng.randrange(n_pool)]

    def attrs(min_priors=1):
        while True:
            out = []
            first = None
            for name in ATTRS:
                r = rng.random()
                if r < 0.15:
                    out.append([name, ["c", round(rng.uniform(-3, 3), 2)]])
                elif r < 0.35 and first is not None:
                    out.append([name, first])  # the same prior at a second place of this factor
                else:
                    p = pick()
                    first = first or p
                    out.append([name, p])
            if sum(1 for _, a in out if a[0] == "p") >= min_priors:
                return out

    factors = []
    for _ in range(rng.randint(1, 4)):
        if rng.random() < 0.7:
            factors.append({"k": "analysis", "shape": "model", "attrs": attrs()})
        else:
            factors.append({"k": "analysis", "shape": "coll", "items": [attrs(), attrs(0)]})
    n_h = rng.choice([0, 0, 1, 1, 2]) if not edge else rng.choice([1, 2])
    for _ in range(n_h):
        mean = pick() if rng.random() < 0.8 else ["c", round(rng.uniform(-3, 3), 2)]
        sigma = pick() if rng.random() < 0.6 else ["c", round(rng.uniform(0.5, 3), 2)]
        own = {a[1] for a in (mean, sigma) if a[0] == "p"}
        cands = [i for i in range(n_pool) if i not in own]
        if not cands:
            continue
        drawn = rng.sample(cands, min(len(cands), rng.randint(1, 3)))
        factors.insert(rng.randint(0, len(factors)), {"k": "hier", "mean": mean, "sigma": sigma, "drawn": drawn})
    prog = {"priors": priors, "factors": factors, "ipf": rng.random() < 0.6}
    if rng.random() < 0.25 and any(f["k"] == "hier" and len(f["drawn"]) >= 2 for f in factors):
        prog["late_drawn"] = True
    if rng.random() < 0.35:
        prog["n_ctor"] = rng.randint(0, len(factors))  # the remaining factors are attached with .add()
        # ... after the partly built model was already used (graph / approximation asked for)
        prog["touch"] = rng.choice([None, "graph", "approx", "info"])
    return prog


def places_of(prog):
    """per model factor (graph order): prior indices, one per place — computed from the program only"""
    out = []
    for f in prog["factors"]:
        if f["k"] == "analysis":
            items = [f["attrs"]] if f["shape"] == "model" else f["items"]
            out.append([a[1] for at in items for _, a in at if a[0] == "p"])
        else:
            base = [a[1] for a in (f["mean"], f["sigma"]) if a[0] == "p"]
            for d in f["drawn"]:
                out.append(base + [d])
    return out


def dedup(xs):
    return list(dict.fromkeys(xs))


class Built:
    pass


def make_prior(d):
    if d["kind"] == "G":
        return af.GaussianPrior(mean=d["a"], sigma=d["b"])
    if d["kind"] == "U":
        return af.UniformPrior(lower_limit=d["a"], upper_limit=d["b"])
    return af.LogUniformPrior(lower_limit=d["a"], upper_limit=d["b"])


def build(prog):
    B = Built()
    B.prog = prog
    B.pool = [make_prior(d) for d in prog["priors"]]
    B.vid = {p: i for i, p in enumerate(B.pool)}

    def arg(a):
        return B.pool[a[1]] if a[0] == "p" else float(a[1])

    top = []
    late = []
    for f in prog["factors"]:
        if f["k"] == "analysis":
            if f["shape"] == "model":
                model = af.Model(Gauss, **{n: arg(a) for n, a in f["attrs"]})
            else:
                model = af.Collection(
                    **{f"g{k}": af.Model(Gauss, **{n: arg(a) for n, a in at}) for k, at in enumerate(f["items"])}
                )
            top.append(g.AnalysisFactor(model, Const()))
        else:
            h = g.HierarchicalFactor(af.GaussianPrior, mean=arg(f["mean"]), sigma=arg(f["sigma"]))
            drawn = list(f["drawn"])
            if prog.get("late_drawn") and len(drawn) >= 2:
                # the last drawn variable is declared when the factor already sits in the (used) collection
                late.append((h, drawn.pop()))
            for d in drawn:
                h.add_drawn_variable(B.pool[d])
            top.append(h)
    B.top = top
    n_ctor = prog.get("n_ctor", len(top))
    B.fg = g.FactorGraphModel(*top[:n_ctor], include_prior_factors=prog["ipf"])
    for t in top[n_ctor:]:
        touch = prog.get("touch")
        try:
            # the start-of-fit state is a function of the factors the model has now, not of when they were added
            if touch == "graph":
                B.fg.graph
            elif touch == "approx":
                B.fg.mean_field_approximation()
            elif touch == "info":
                B.fg.graph.info
        except Exception:  # noqa: an empty / partial graph may refuse; irrelevant for what follows
            pass
        B.fg.add(t)
    if late:
        try:
            B.fg.mean_field_approximation()  # the collection has been used before the declaration
        except Exception:  # noqa
            pass
        for h, d in late:
            h.add_drawn_variable(B.pool[d])
    B.places = places_of(prog)
    B.n_model = len(B.places)
    B.order = dedup([v for ps in B.places for v in ps])
    B.model_factors = list(B.fg.model_factors)
    B.scale = {}
    return B


def fid_of(B, f):
    if isinstance(f, PriorFactor):
        return B.n_model + B.order.index(B.vid[f.prior])
    for i, m in enumerate(B.model_factors):
        if m is f:
            return i
    raise KeyError(f"unknown factor {f}")


def eta(m):
    e = np.asarray(m.natural_parameters, dtype=float).reshape(-1)
    return (float(e[0]), float(e[1]))


def field_of(B, mean_field):
    out = {}
    for v, m in dict.items(mean_field):
        e = eta(m)
        out[B.vid[v]] = e
        for k in (0, 1):
            if e[k] == e[k]:
                B.scale[(B.vid[v], k)] = max(B.scale.get((B.vid[v], k), 0.0), abs(e[k]))
    return out


def state_of(B, mf):
    return {fid_of(B, f): field_of(B, field) for f, field in mf.factor_mean_field.items()}


def factor_with_id(B, mf, i):
    for f in mf.factor_graph.factors:
        if fid_of(B, f) == i:
            return f
    raise KeyError(i)


# ---------------------------------------------------------------------------------------------
# comparison helpers


def near(B, v, k, a, b, rel=REL):
    a = float(a)
    b = float(b)
    if a != a or b != b:
        return a != a and b != b
    return abs(a - b) <= rel * max(abs(a), abs(b)) + rel * B.scale.get((v, k), 0.0)


def same_field(B, real, model, rel=REL):
    """real: {v: (float, float)}; model: {v: (Fraction, Fraction)} or floats"""
    if sorted(real) != sorted(model):
        return False
    return all(near(B, v, k, real[v][k], model[v][k], rel) for v in real for k in (0, 1))


def parse_field(j):
    return {int(v): (Fraction(e[0]), Fraction(e[1])) for v, e in j}


def parse_state(j):
    return {int(f): parse_field(fl) for f, fl in j}


def show(field):
    return {str(v): [float(e[0]), float(e[1])] for v, e in sorted(field.items())}


def wire_field(field):
    return [[v, [f2h(e[0]), f2h(e[1])]] for v, e in sorted(field.items())]


# ---------------------------------------------------------------------------------------------
# flags: which of the findings are present in the working tree (probed on the real code)

_flags = None

W_SHARED = {
    "priors": [{"kind": "G", "a": 1.0, "b": 2.0}, {"kind": "G", "a": 3.0, "b": 1.5}],
    "factors": [
        {"k": "analysis", "shape": "model", "attrs": [["centre", ["p", 0]], ["normalization", ["p", 1]], ["sigma", ["p", 0]]]},
        {"k": "analysis", "shape": "model", "attrs": [["centre", ["p", 0]], ["normalization", ["c", 1.0]], ["sigma", ["c", 1.0]]]},
    ],
    "ipf": False,
}


def probe_flags(ctx):
    global _flags
    if _flags is not None:
        return _flags
    fl = {"countPerFactor": True, "latestIsLast": True, "powZeroOk": True}
    detail = {}

    def probe_count():
        B = build(W_SHARED)
        counts = {B.vid[p]: c for p, c in B.fg.prior_counts}
        detail["prior_counts"] = counts
        fl["countPerFactor"] = counts.get(0) != 3

    def probe_latest():
        B = build(W_SHARED)
        h = FactorHistory(B.model_factors[0])
        h(None, Status(success=True, result="first"))
        h(None, Status(success=True, result="second"))
        fl["latestIsLast"] = h.latest_result != "first"

    def probe_pow():
        B = build(W_SHARED)
        mf = B.fg.mean_field_approximation()
        f0 = factor_with_id(B, mf, 0)
        fa = mf.factor_approximation(f0)
        q = MeanField({v: m.from_natural_parameters(np.asarray(m.natural_parameters) * 2.0) for v, m in dict.items(fa.model_dist)})
        mf2, st = DynamicUpdater(1.0).update_model_approx(q, fa, mf, Status())
        v1 = B.pool[1]  # held by one factor only: the dynamic exponent is exactly 1
        dropped = np.allclose(mf2.factor_mean_field[f0][v1].natural_parameters, fa.factor_dist[v1].natural_parameters, rtol=1e-12)
        detail["success"] = bool(st.success)
        fl["powZeroOk"] = not (dropped and not st.success)

    for fn in (probe_count, probe_latest, probe_pow):
        try:
            fn()
        except Exception:
            pass  # the generated cases will meet (and report) whatever raised here
    _flags = fl
    ctx.notes["flags_observed"] = dict(fl)
    if not fl["countPerFactor"]:
        ctx.fail("C18-prior-counted-per-place",
                 "a prior held at two places of one factor is counted twice by prior_counts, so the initial cavity is prior**(1/2), not the prior",
                 {"kind": "graph", "program": W_SHARED, "ops": []}, detail)
    if not fl["latestIsLast"]:
        ctx.fail("C18-latest-result-first", "FactorHistory.latest_result returns the first successful result, not the latest",
                 {"kind": "hist", "entries": [[True, 1], [True, 2]]}, {"got": "first"})
    if not fl["powZeroOk"]:
        ctx.fail("C18-damping-exponent-zero",
                 "a per-variable damping of exactly 1 (DynamicUpdater with delta=1 on the least-shared variables) forms message**0 = NaN and the update is dropped",
                 {"kind": "graph", "program": W_SHARED, "ops": [{"f": 0, "auto": "dynamic-one"}]}, detail)
    return fl


def cfg_wire(fl):
    return {"countPerFactor": fl["countPerFactor"], "latestIsLast": fl["latestIsLast"]}


# ---------------------------------------------------------------------------------------------
# generation of one update


def choose_q(rng, B, scope, old, cav, deltas, want_valid):
    """new model distribution over `scope` (natural parameters as floats).
    deltas: {v: None (full) | float}; cav/old: {v: (e1, e2)}"""
    q = {}
    for v in scope:
        c2 = cav[v][1] if v in cav else None
        o2 = old[v][1] if v in old else -1.0
        d = deltas.get(v)
        for _ in range(50):
            base = c2 if c2 is not None else -rng.uniform(0.05, 5.0)
            if c2 is None:
                q2 = base
            elif want_valid:
                q2 = base * rng.uniform(1.3, 4.0)
            else:
                if d is None or d >= 1.0:
                    q2 = base * rng.uniform(0.2, 0.9)
                elif d <= 0.0:
                    q2 = base * rng.uniform(1.3, 4.0)
                else:
                    q2 = base + (1 - d) / d * abs(o2) * rng.uniform(1.5, 3.0)
                    if q2 >= -1e-6 * abs(base):
                        q2 = base * rng.uniform(1.3, 4.0)  # not reachable with a proper q: stay valid
            cc = c2 if c2 is not None else 0.0
            cand2 = (q2 - cc) if d is None else (d * q2 + (1 - d) * o2 - d * cc)
            big = max(abs(q2), abs(cc), abs(o2))
            if abs(cand2) > 1e-4 * big and q2 < 0:
                break
        mean = rng.uniform(-5, 5)
        q[v] = (mean * (-2.0 * q2), q2)
    return q


def gen_delta(rng, fl, scope):
    r = rng.random()
    if r < 0.40:
        return {"k": "scalar", "d": f2h(1.0)}
    if r < 0.60:
        return {"k": "scalar", "d": f2h(round(rng.uniform(0.05, 0.95), 3))}
    if r < 0.66:
        return {"k": "scalar", "d": f2h(rng.choice([1.5, 2.0, 1.0000001]))}
    if r < 0.70 and fl["powZeroOk"]:
        return {"k": "scalar", "d": f2h(0.0)}
    if r < 0.85:
        ds = []
        for v in scope:
            x = rng.random()
            if fl["powZeroOk"] and x < 0.25:
                d = 1.0
            elif fl["powZeroOk"] and x < 0.33:
                d = 0.0
            else:
                d = round(rng.uniform(0.05, 0.95), 3)
            ds.append([v, f2h(d)])
        return {"k": "pervar", "d": ds}
    d = 1.0 if (fl["powZeroOk"] and rng.random() < 0.5) else round(rng.uniform(0.3, 0.95), 3)
    return {"k": "dynamic", "d": f2h(d)}


def delta_values(B, delta, scope, state, fs_scopes):
    """{v: None | float}: the exponent the property speaks about, computed from the description"""
    if delta["k"] == "scalar":
        d = h2f(delta["d"])
        return {v: (d if d < 1 else None) for v in scope}
    if delta["k"] == "pervar":
        m = {v: h2f(x) for v, x in delta["d"]}
        return {v: m.get(v, 1.0) for v in scope}
    d = h2f(delta["d"])
    counts = {}
    for f, field in state.items():
        for v in field:
            counts[v] = counts.get(v, 0) + 1
    lo = min(counts.values())
    return {v: d * (lo / counts[v]) for v in scope}


# ---------------------------------------------------------------------------------------------
# the oracle: the property sentence on the real outputs


def others_sum(state, f, v):
    vals = [field[v] for g_, field in state.items() if g_ != f and v in field]
    if not vals:
        return None
    return (sum(x[0] for x in vals), sum(x[1] for x in vals))


def all_sum(state, v):
    vals = [field[v] for field in state.values() if v in field]
    return (sum(x[0] for x in vals), sum(x[1] for x in vals))


def oracle_approx(ctx, B, case, state, f, cav, old, model, where):
    """model = own message x cavity; cavity = product of all OTHER factors' messages"""
    for v, o in old.items():
        want_c = others_sum(state, f, v)
        if (want_c is None) != (v not in cav):
            ctx.fail("C18-cavity-keys", "the cavity has a message for a variable no other factor holds, or lacks one that another factor holds",
                     case, {"where": where, "factor": f, "var": v, "cavity_has": v in cav})
            return False
        if want_c is not None and not all(near(B, v, k, cav[v][k], want_c[k]) for k in (0, 1)):
            ctx.fail("C18-cavity-value", "a cavity is not the product of all other factors' messages", case,
                     {"where": where, "factor": f, "var": v, "cavity": cav[v], "product_of_others": want_c})
            return False
        want_m = o if want_c is None else (o[0] + cav[v][0], o[1] + cav[v][1])
        if v not in model or not all(near(B, v, k, model[v][k], want_m[k]) for k in (0, 1)):
            ctx.fail("C18-model-dist", "a factor's model distribution is not its own message times its cavity", case,
                     {"where": where, "factor": f, "var": v, "model": model.get(v), "message_times_cavity": want_m})
            return False
    return True


def oracle_global(ctx, B, case, state, glob, where):
    vars_ = sorted({v for field in state.values() for v in field})
    if sorted(glob) != vars_:
        ctx.fail("C18-global-keys", "the global approximation does not cover exactly the variables of the graph", case,
                 {"where": where, "global": sorted(glob), "vars": vars_})
        return False
    for v in vars_:
        want = all_sum(state, v)
        if not all(near(B, v, k, glob[v][k], want[k]) for k in (0, 1)):
            ctx.fail("C18-global-value", "the global approximation is not the product of all factor messages", case,
                     {"where": where, "var": v, "global": glob[v], "product": want})
            return False
    return True


def oracle_initial(ctx, B, case, mf, state, fl):
    """every factor's cavity for every variable equals the user's prior"""
    ok = True
    for f in mf.factor_graph.factors:
        i = fid_of(B, f)
        fa = mf.factor_approximation(f)
        cav = field_of(B, fa.cavity_dist)
        model = field_of(B, fa.model_dist)
        old = field_of(B, fa.factor_dist)
        ok = oracle_approx(ctx, B, case, state, i, cav, old, model, "initial") and ok
        want_scope = sorted(set(B.places[i])) if i < B.n_model else [B.order[i - B.n_model]]
        if sorted(old) != want_scope:
            ctx.fail("C18-factor-scope", "a factor's mean field does not cover exactly the factor's variables", case,
                     {"factor": i, "keys": sorted(old), "scope": want_scope})
            ok = False
            continue
        for v in old:
            prior = eta(B.pool[v].message)
            for k in (0, 1):
                B.scale[(v, k)] = max(B.scale.get((v, k), 0.0), abs(prior[k]))
            got = cav[v] if v in cav else model[v]  # no other factor: the factor is fitted with its own message
            if not all(near(B, v, k, got[k], prior[k]) for k in (0, 1)):
                repeated = any(ps.count(v) > 1 for ps in B.places)
                cls = "C18-prior-counted-per-place" if (repeated and not fl["countPerFactor"]) else "C18-initial-cavity"
                ctx.fail(cls, "at the start of a declarative graph fit a factor's cavity for a variable is not the user's prior", case,
                         {"factor": i, "var": v, "cavity": got, "prior": prior})
                ok = False
    return ok


# ---------------------------------------------------------------------------------------------
# one graph case at the API level


def lean_ep(ctx, B, fl, ops_wire):
    req = {
        "p": "C18", "q": "ep", "cfg": cfg_wire(fl),
        "decl": {"places": B.places, "ipf": B.prog["ipf"]},
        "priors": [[v, [f2h(e[0]), f2h(e[1])]] for v, e in ((v, eta(B.pool[v].message)) for v in B.order)],
        "ops": ops_wire,
    }
    return ctx.lean.ask(req)


def check_graph(ctx, B, mf, case, fl, ans):
    """graph structure and initial state: model vs real, then the oracle"""
    state = state_of(B, mf)
    real_factors = sorted((fid_of(B, f), sorted(B.vid[v] for v in f.all_variables)) for f in mf.factor_graph.factors)
    model_factors = sorted((int(f), sorted(int(v) for v in sc)) for f, sc in ans["factors"])
    if real_factors != model_factors:
        ctx.disagree("C18.graph", case, real_factors, model_factors)
    real_places = [sorted(B.vid[p] for p in f.prior_model.priors) for f in B.model_factors]
    if real_places != [sorted(ps) for ps in B.places]:
        ctx.disagree("C18.places", case, real_places, B.places)
    real_counts = sorted((B.vid[p], c) for p, c in B.fg.prior_counts)
    if real_counts != sorted((int(v), int(c)) for v, c in ans["counts"]):
        ctx.disagree("C18.counts", case, real_counts, ans["counts"])
    m_state = parse_state(ans["init"])
    if sorted(state) != sorted(m_state) or not all(same_field(B, state[f], m_state[f]) for f in state):
        ctx.disagree("C18.init-state", case, {f: show(x) for f, x in state.items()}, {f: show(x) for f, x in m_state.items()})
    m_cav = parse_state(ans["init_cavity"])
    m_model = parse_state(ans["init_model"])
    for f in mf.factor_graph.factors:
        i = fid_of(B, f)
        fa = mf.factor_approximation(f)
        if not same_field(B, field_of(B, fa.cavity_dist), m_cav[i]):
            ctx.disagree("C18.init-cavity", case | {"factor": i}, show(field_of(B, fa.cavity_dist)), show(m_cav[i]))
            break
        if not same_field(B, field_of(B, fa.model_dist), m_model[i]):
            ctx.disagree("C18.init-model", case | {"factor": i}, show(field_of(B, fa.model_dist)), show(m_model[i]))
            break
    glob = field_of(B, mf.mean_field)
    if not same_field(B, glob, parse_field(ans["init_global"])):
        ctx.disagree("C18.init-global", case, show(glob), show(parse_field(ans["init_global"])))
    oracle_initial(ctx, B, case, mf, state, fl)
    oracle_global(ctx, B, case, state, glob, "initial")
    return state


def apply_op(B, states, op):
    """run one concrete update on the real code; returns what happened"""
    cur = states[-1]
    age = op.get("age", 0)
    src = states[-1 - age] if age < len(states) else cur
    f = factor_with_id(B, cur, op["f"])
    f_src = factor_with_id(B, src, op["f"])
    fa = src.factor_approximation(f_src)
    var = {B.vid[v]: v for v in dict.keys(fa.factor_dist)}
    new_dist = MeanField({
        var[v]: fa.model_dist[var[v]].from_natural_parameters(np.array([h2f(a), h2f(b)]))
        for v, (a, b) in op["q"]
    })
    status = Status(success=op.get("success", True), result=("result", op.get("tag", 0)))
    d = op["delta"]
    if d["k"] == "scalar":
        x = h2f(d["d"])
        if op.get("via") == "updater":
            new_mf, st = SimplerUpdater(x).update_model_approx(new_dist, fa, cur, status)
        elif op.get("via") == "factor-updater":
            new_mf, st = FactorUpdater({f: x}, default=0.123).update_model_approx(new_dist, fa, cur, status)
        elif op.get("via") == "two-step":
            # the same update through the two-step API (factor approximation first, then the mean field)
            proj, st = fa.project_mean_field(new_dist, delta=x, status=status)
            new_mf, st = cur.project_factor_approx(proj, st)
        else:
            new_mf, st = cur.project_mean_field(new_dist, fa, delta=x, status=status)
    elif d["k"] == "pervar":
        dm = MeanField({var[v]: h2f(x) for v, x in d["d"]})
        if op.get("via") == "two-step":
            proj, st = fa.project_mean_field(new_dist, delta=dm, status=status)
            new_mf, st = cur.project_factor_approx(proj, st)
        else:
            new_mf, st = cur.project_mean_field(new_dist, fa, delta=dm, status=status)
    else:
        new_mf, st = DynamicUpdater(h2f(d["d"])).update_model_approx(new_dist, fa, cur, status)
    return f, fa, new_dist, new_mf, st


def oracle_update(ctx, B, case, k, op, prev, new, fa_fields, q, st, fresh, dvals, fl, result_state=None):
    """a full update of one factor changes only that factor's message and makes the global
    approximation equal the newly fitted distribution on that factor's variables (damped: the
    convex combination in natural parameters)"""
    f = op["f"]
    cav, old, _model = fa_fields
    where = f"after update {k}"
    for g_ in prev:
        if g_ != f and (g_ not in new or {v: (f2h(e[0]), f2h(e[1])) for v, e in new[g_].items()} != {v: (f2h(e[0]), f2h(e[1])) for v, e in prev[g_].items()}):
            ctx.fail("C18-update-touches-other-factor", "updating one factor changed another factor's message", case,
                     {"where": where, "updated": f, "changed": g_, "before": show(prev[g_]), "after": show(new.get(g_, {}))})
            return
    if sorted(new) != sorted(prev) or sorted(new[f]) != sorted(q):
        ctx.fail("C18-update-keys", "after an update the factor does not hold exactly one message per fitted variable", case,
                 {"where": where, "keys": sorted(new.get(f, {})), "fitted": sorted(q)})
        return
    any_invalid = False
    for v in q:
        d = dvals[v]
        c = cav.get(v, (0.0, 0.0))
        o = old[v]
        if d is None:
            cand = (q[v][0] - c[0], q[v][1] - c[1])
        else:
            cand = tuple(d * q[v][j] + (1 - d) * o[j] - d * c[j] for j in (0, 1))
        valid = cand[1] < 0
        if not valid:
            any_invalid = True
            ctx.hit("projection:improper")
            if not all(near(B, v, j, new[f][v][j], o[j]) for j in (0, 1)):
                ctx.fail("C18-invalid-projection", "an improper projection (negative precision) did not keep the factor's previous message", case,
                         {"where": where, "var": v, "new": new[f][v], "previous": o})
                return
            continue
        ctx.hit("projection:proper")
        if not fresh:
            if not all(near(B, v, j, new[f][v][j], cand[j]) for j in (0, 1)):
                ctx.fail("C18-stale-update", "projecting an approximation taken earlier does not give q^d * old^(1-d) / cavity^d of that approximation", case,
                         {"where": where, "var": v, "new": new[f][v], "want": cand})
                return
            continue
        gnew = all_sum(new, v)
        gold = all_sum(prev, v)
        want = q[v] if d is None else tuple(d * q[v][j] + (1 - d) * gold[j] for j in (0, 1))
        if not all(near(B, v, j, gnew[j], want[j]) for j in (0, 1)):
            exact = d is not None and d in (0.0, 1.0) and not fl["powZeroOk"]
            ctx.fail("C18-damping-exponent-zero" if exact else ("C18-full-update" if d is None else "C18-damped-update"),
                     "after a full update the global approximation is not the newly fitted distribution on the factor's variables"
                     if d is None else "after a damped update the global approximation is not q^d * previous^(1-d)", case,
                     {"where": where, "var": v, "delta": d, "global": gnew, "want": want})
            return
    want_success = op.get("success", True) and not any_invalid
    if bool(st.success) != want_success or ((st.flag == BAD) != any_invalid):
        exact = not fl["powZeroOk"] and any(d in (0.0, 1.0) for d in dvals.values() if d is not None)
        ctx.fail("C18-damping-exponent-zero" if exact else "C18-status", "the status after a projection does not say whether the projection was proper", case,
                 {"where": where, "success": bool(st.success), "flag": str(st.flag), "improper": any_invalid})


def guarded(ctx, case, fn):
    """an exception escaping from the bookkeeping API on a generated input is a failing input"""
    try:
        fn(case)
    except LeanError:
        raise
    except Exception as e:
        import traceback

        tb = traceback.extract_tb(e.__traceback__)
        where = next((f"{fr.filename.split('/')[-1]}:{fr.lineno}" for fr in reversed(tb) if "/autofit/" in fr.filename), "harness")
        ctx.fail("C18-exception-" + type(e).__name__, f"{type(e).__name__} raised while building / updating / reading the EP approximation",
                 case, {"error": repr(e)[:300], "where": where})


def graph_case(ctx, prog, ops=None, n_ops=None, label="gen"):
    case = {"kind": "graph", "program": prog, "ops": ops if ops is not None else []}
    guarded(ctx, case, lambda c: _graph_case(ctx, prog, c, ops, n_ops, label))


def _graph_case(ctx, prog, case, ops=None, n_ops=None, label="gen"):
    """ops given (replay / corpus) or generated adaptively from ctx.rng"""
    rng = ctx.rng
    fl = probe_flags(ctx)
    B = build(prog)
    mf = B.fg.mean_field_approximation()
    states = [mf]
    fields = [state_of(B, mf)]
    hist = EPHistory(kl_tol=None)
    done = []  # (op, fa_fields, q_real, new_state, status, fresh)
    n_f = len(mf.factor_graph.factors)
    k = 0
    while True:
        if ops is not None:
            if k >= len(ops):
                break
            op = dict(ops[k])
            if op.get("auto") == "dynamic-one" and not fl["powZeroOk"]:
                break  # reported by the probe; the model does not mirror NaN parameters
            if op.get("auto") == "dynamic-one":
                f0 = factor_with_id(B, states[-1], op["f"])
                fa0 = states[-1].factor_approximation(f0)
                op = {"f": op["f"], "age": 0, "delta": {"k": "dynamic", "d": f2h(1.0)}, "success": True, "tag": 1,
                      "q": wire_field({v: (e[0] * 2.0, e[1] * 2.0) for v, e in field_of(B, fa0.model_dist).items()})}
        else:
            if k >= n_ops:
                break
            fi = rng.randrange(n_f) if rng.random() < 0.8 else rng.randrange(B.n_model)
            age = 0 if rng.random() < 0.8 else rng.randint(1, 3)
            age = min(age, len(states) - 1)
            src = states[-1 - age]
            fa0 = src.factor_approximation(factor_with_id(B, src, fi))
            cav0, old0 = field_of(B, fa0.cavity_dist), field_of(B, fa0.factor_dist)
            scope = sorted(old0)
            delta = gen_delta(rng, fl, scope)
            dv = delta_values(B, delta, scope, fields[-1], None)
            qf = choose_q(rng, B, scope, old0, cav0, dv, want_valid=rng.random() < 0.8)
            op = {"f": fi, "age": age, "q": wire_field(qf), "delta": delta, "success": rng.random() < 0.75, "tag": k + 1,
                  "via": rng.choice(["project", "updater", "factor-updater", "two-step"])}
        case["ops"] = [o for o, *_ in done] + [op]
        f, fa, new_dist, new_mf, st = apply_op(B, states, op)
        fa_fields = (field_of(B, fa.cavity_dist), field_of(B, fa.factor_dist), field_of(B, fa.model_dist))
        q_real = field_of(B, new_dist)
        op["q"] = wire_field(q_real)  # what the real message objects hold (bit exact)
        hist(f, new_mf, st)
        states.append(new_mf)
        fields.append(state_of(B, new_mf))
        done.append((op, fa_fields, q_real, st, op.get("age", 0) == 0))
        ctx.hit("delta:" + op["delta"]["k"])
        ctx.hit("age:" + ("fresh" if op.get("age", 0) == 0 else "stale"))
        ctx.hit("factor:" + ("prior" if op["f"] >= B.n_model else "model"))
        k += 1
    case["ops"] = [o for o, *_ in done]
    # approximations are values: an update returns a new approximation and leaves the one it started from
    # (and everything recorded in the history) as it was
    for k_, (obj, rec_) in enumerate(zip(states, fields)):
        now = state_of(B, obj)
        if {i: wire_field(f_) for i, f_ in now.items()} != {i: wire_field(f_) for i, f_ in rec_.items()}:
            changed = sorted(i for i in rec_ if wire_field(now.get(i, {})) != wire_field(rec_[i]))
            ctx.fail("C18-earlier-approximation-changed",
                     f"the approximation after update {k_} changed when later updates were made (factors {changed[:4]})",
                     dict(case, step=k_), {"then": {i: show(rec_[i]) for i in changed[:2]}, "now": {i: show(now[i]) for i in changed[:2] if i in now}})
            break
    # the in-place route (`update_factor_mean_field`, used by `approx[index] = subset` and the stochastic optimiser):
    # after a factor's message was replaced on the *same* object, the global approximation read from that object
    # is the product of the messages it holds now - what a fresh approximation over the same messages reports
    if done:
        try:
            src_, tgt_ = states[0], states[-1]
            probe = type(src_)(factor_graph=src_.factor_graph, factor_mean_field=src_.factor_mean_field)
            field_of(B, probe.mean_field)  # read before the update
            for f_, dist_ in tgt_.factor_mean_field.items():
                probe.update_factor_mean_field(f_, dist_)
            got_, want_ = wire_field(field_of(B, probe.mean_field)), wire_field(field_of(B, tgt_.mean_field))
            ctx.hit("in-place-route")
            if got_ != want_:
                ctx.fail("C18-global-stale-after-in-place-update",
                         "after messages were replaced in place (update_factor_mean_field) the global approximation read from the same "
                         "object is not the product of the messages it holds", dict(case, in_place=True), {"got": got_[:3], "want": want_[:3]})
        except Exception as e:  # noqa
            ctx.hit("in-place-route-raised:" + type(e).__name__)
    ops_wire = [{kk: o[kk] for kk in ("f", "age", "q", "delta", "success", "tag") if kk in o} for o, *_ in done]
    ans = lean_ep(ctx, B, fl, ops_wire)
    shared = any(sum(1 for ps in B.places if v in ps) >= 2 for v in B.order)
    ctx.case({"program": prog, "ops": ops_wire}, nontrivial=shared and len(done) >= 2,
             sample={"program": prog, "n_updates": len(done), "label": label})
    ctx.hit("graph:prior-factors" if prog["ipf"] else "graph:no-prior-factors")
    if any(len(ps) != len(set(ps)) for ps in B.places):
        ctx.hit("graph:prior-repeated-within-factor")
    if any(f["k"] == "hier" for f in prog["factors"]):
        ctx.hit("graph:hierarchical")
    if "driver_error" in ans:
        ctx.disagree("C18.driver", case, None, ans["driver_error"])
        return
    check_graph(ctx, B, mf, case, fl, ans)

    # ---- updates: correspondence and oracle
    for k, (op, fa_fields, q_real, st, fresh) in enumerate(done):
        ms = ans["steps"][k]
        src_state = fields[k - op.get("age", 0)] if op.get("age", 0) <= k else fields[k]
        for name, real in zip(("cav", "old", "model"), fa_fields):
            if not same_field(B, real, parse_field(ms[name])):
                ctx.disagree("C18.approx-" + name, case | {"step": k}, show(real), show(parse_field(ms[name])))
        new_f = fields[k + 1][op["f"]]
        if not same_field(B, new_f, parse_field(ms["new"])):
            ctx.disagree("C18.new-message", case | {"step": k}, show(new_f), show(parse_field(ms["new"])))
        glob = field_of(B, states[k + 1].mean_field)
        if not same_field(B, glob, parse_field(ms["global"])):
            ctx.disagree("C18.global", case | {"step": k}, show(glob), show(parse_field(ms["global"])))
        if bool(st.success) != ms["success"] or (st.flag == BAD) != ms["bad"]:
            ctx.disagree("C18.status", case | {"step": k}, [bool(st.success), str(st.flag)], [ms["success"], ms["bad"]])
        oracle_approx(ctx, B, case, src_state, op["f"], *fa_fields, where=f"update {k}")
        dv = delta_values(B, op["delta"], sorted(q_real), fields[k], None)
        oracle_update(ctx, B, case, k, op, fields[k], fields[k + 1], fa_fields, q_real, st, fresh, dv, fl)
        oracle_global(ctx, B, case, fields[k + 1], glob, f"after update {k}")
    m_final = parse_state(ans["final"])
    if sorted(m_final) != sorted(fields[-1]) or not all(same_field(B, fields[-1][f], m_final[f]) for f in m_final):
        ctx.disagree("C18.final-state", case, {f: show(x) for f, x in fields[-1].items()}, {f: show(x) for f, x in m_final.items()})

    # ---- result accessors
    res = EPResult(ep_history=hist, declarative_factor=B.fg, updated_ep_mean_field=states[-1])
    check_results(ctx, B, case, fl, res, [(o["f"], bool(st.success), o.get("tag", 0)) for o, _, _, st, _ in done],
                  ans["latest"], fields[-1])


def check_results(ctx, B, case, fl, res, entries, m_latest, final_state):
    """EPResult / FactorHistory accessors: the most recent successful result per factor; the result
    model carries the final global approximation"""
    got = []
    for f in B.model_factors:
        try:
            r = res.ep_history[f].latest_result
            got.append(r[1] if isinstance(r, tuple) else r)
        except exc.HistoryException:
            got.append(None)
    if got != m_latest:
        ctx.disagree("C18.latest", case, got, m_latest)
    want = []
    first = []
    for i in range(B.n_model):
        ok = [t for f, s, t in entries if f == i and s]
        want.append(ok[-1] if ok else None)
        first.append(ok[0] if ok else None)
    if got != want:
        cls = "C18-latest-result-first" if (got == first and not fl["latestIsLast"]) else "C18-latest-result"
        ctx.fail(cls, "latest_result of a factor is not the result of its most recent successful optimisation", case,
                 {"got": got, "want": want, "history": entries})
    if all(w is not None for w in want):
        lr = [r[1] if isinstance(r, tuple) else r for r in res.latest_results]
        if lr != got:
            ctx.fail("C18-latest-results-list", "EPResult.latest_results is not the per-factor latest_result in model_factors order", case,
                     {"latest_results": lr, "per_factor": got})
        k = 0
        for top in B.top:
            if isinstance(top, g.HierarchicalFactor):
                n = len(top.factors)
                if n:
                    hr = res.latest_for(top)
                    tags = [r[1] for r in hr.results] if isinstance(hr, HierarchicalResult) else None
                    if tags != got[k:k + n]:
                        ctx.fail("C18-latest-for-hierarchical", "latest_for(hierarchical factor) does not collect the latest result of each of its factors", case,
                                 {"got": tags, "want": got[k:k + n]})
                k += n
            else:
                r = res.latest_for(top)
                if (r[1] if isinstance(r, tuple) else r) != got[k]:
                    ctx.fail("C18-latest-for", "latest_for(factor) differs from the factor's latest_result", case, {"got": r, "want": got[k]})
                k += 1
        ctx.hit("results:all-factors-succeeded")
    # the result model: every prior carries the final global approximation
    try:
        model = res.model
        if len(model) != B.n_model:
            collapsed = any(isinstance(t, g.HierarchicalFactor) and len(t.factors) >= 2 for t in B.top)
            ctx.fail("C18-result-model-hierarchical-collapsed" if collapsed else "C18-result-model-size",
                     "EPResult.model does not have one item per factor of the optimisation", case,
                     {"items": len(model), "model_factors": B.n_model})
        glob = {v: all_sum(final_state, v) for v in B.order}
        seen = set()
        for p in model.priors:
            v = next((i for i, q in enumerate(B.pool) if q.id == p.id), None)
            if v is None:
                continue
            seen.add(v)
            e = eta(p.message)
            if not all(near(B, v, j, e[j], glob[v][j], 1e-7) for j in (0, 1)):
                ctx.fail("C18-result-model", "EPResult.model does not carry the final global approximation of a variable", case,
                         {"var": v, "result": e, "global": glob[v]})
                break
        ctx.hit("results:model-checked")
    except Exception as e:  # limits of with_message for some priors are not this property's subject
        ctx.hit("results:model-unavailable:" + type(e).__name__)


# ---------------------------------------------------------------------------------------------
# a whole scripted optimiser run


class Scripted(AbstractFactorOptimiser):
    """stands in for the factor optimisers: returns a scripted new model distribution and status"""

    def __init__(self, ctx, B, fl, script=None, p_valid=0.85, updater_spec=None):
        super().__init__()
        self.ctx, self.B, self.fl = ctx, B, fl
        self.script = script
        self.calls = []
        self.p_valid = p_valid
        self.updater_spec = updater_spec or {"k": "scalar", "d": f2h(1.0)}
        self.count_state = None

    def optimise(self, factor_approx, status=None):
        B, rng = self.B, self.ctx.rng
        k = len(self.calls)
        fi = fid_of(B, factor_approx.factor)
        cav, old, model = (field_of(B, factor_approx.cavity_dist), field_of(B, factor_approx.factor_dist),
                           field_of(B, factor_approx.model_dist))
        scope = sorted(old)
        if self.script is not None:
            sc = self.script[k]
            qf = {int(v): (h2f(a), h2f(b)) for v, (a, b) in sc["q"]}
            success = sc["success"]
        else:
            spec = self.updater_spec
            if spec["k"] == "scalar":
                d = h2f(spec["d"])
                dv = {v: (d if d < 1 else None) for v in scope}
                valid = rng.random() < self.p_valid
            else:
                dv = {v: 1.0 for v in scope}
                valid = True
            qf = choose_q(rng, B, scope, old, cav, dv, want_valid=valid)
            success = rng.random() < 0.75
        raises = self.script[k].get("raises", False) if self.script is not None else rng.random() < 0.08
        if raises:
            # factor_step catches it: the step fails and the factor's model distribution is projected back
            self.calls.append({"f": fi, "fa": (cav, old, model), "q": dict(model), "success": False, "tag": k + 1, "raises": True})
            raise ValueError("scripted factor optimiser failure")
        new_dist = MeanField({
            v: factor_approx.model_dist[v].from_natural_parameters(np.array(qf[B.vid[v]]))
            for v in dict.keys(factor_approx.factor_dist)
        })
        self.calls.append({"f": fi, "fa": (cav, old, model), "q": field_of(B, new_dist), "success": success, "tag": k + 1})
        return new_dist, Status(success=success, result=("result", k + 1))


def run_case(ctx, prog, rounds, updater_spec, via, script=None, label="gen"):
    case = {"kind": "run", "program": prog, "rounds": rounds, "updater": updater_spec, "via": via}
    if script is not None:
        case["script"] = script
    guarded(ctx, case, lambda c: _run_case(ctx, prog, c, rounds, updater_spec, via, script, label))


def _run_case(ctx, prog, case, rounds, updater_spec, via, script=None, label="gen"):
    fl = probe_flags(ctx)
    B = build(prog)
    if not fl["powZeroOk"] and updater_spec["k"] == "dynamic" and h2f(updater_spec["d"]) == 1.0:
        # exponents of exactly 1 are dropped by the working tree (reported by the probe); stay off them
        updater_spec = {"k": "dynamic", "d": f2h(0.9)}
        case["updater"] = updater_spec
    opt = Scripted(ctx, B, fl, script=script, updater_spec=updater_spec)
    hist = EPHistory(kl_tol=None)
    if via == "declarative":
        res = B.fg.optimise(opt, ep_history=hist, max_steps=rounds)
        final = res.updated_ep_mean_field
        mf0 = B.fg.mean_field_approximation()
    else:
        if updater_spec["k"] == "scalar":
            updater = SimplerUpdater(h2f(updater_spec["d"]))
        else:
            updater = DynamicUpdater(h2f(updater_spec["d"]))
        mf0 = B.fg.mean_field_approximation()
        ep = EPOptimiser(B.fg.graph, default_optimiser=opt, ep_history=hist, updater=updater)
        final = ep.run(mf0, max_steps=rounds)
        res = EPResult(ep_history=hist, declarative_factor=B.fg, updated_ep_mean_field=final)
    calls = opt.calls
    case["script"] = [{"q": wire_field(c["q"]), "success": c["success"], "raises": c.get("raises", False)} for c in calls]
    ops_wire = [{"f": c["f"], "age": 0, "q": wire_field(c["q"]), "delta": updater_spec, "success": c["success"], "tag": c["tag"]}
                for c in calls]
    ans = lean_ep(ctx, B, fl, ops_wire)
    shared = any(sum(1 for ps in B.places if v in ps) >= 2 for v in B.order)
    ctx.case({"program": prog, "run": ops_wire}, nontrivial=shared and len(calls) >= 2,
             sample={"program": prog, "rounds": rounds, "updater": updater_spec["k"], "via": via, "label": label})
    ctx.hit("run:" + via)
    ctx.hit("run-updater:" + updater_spec["k"])
    if "driver_error" in ans:
        ctx.disagree("C18.driver", case, None, ans["driver_error"])
        return
    state0 = check_graph(ctx, B, mf0, case, fl, ans)
    # every factor of the graph is updated once per round, in graph order
    order = [fid_of(B, f) for f in mf0.factor_graph.factors]
    if [c["f"] for c in calls] != order * rounds:
        ctx.fail("C18-run-order", "EPOptimiser.run did not update every factor once per round in graph order", case,
                 {"called": [c["f"] for c in calls], "want": order * rounds})
        return
    # states after each step as recorded by the history
    per = {}
    seq = []
    for c in calls:
        f = factor_with_id(B, mf0, c["f"])
        n = per.get(c["f"], 0)
        h = hist[f].history
        if n >= len(h):
            ctx.fail("C18-history-missing", "a factor update was not recorded in the factor's history", case, {"factor": c["f"], "entry": n})
            return
        seq.append(h[n])
        per[c["f"]] = n + 1
    fields = [state0]
    for k, (c, (approx, st)) in enumerate(zip(calls, seq)):
        ms = ans["steps"][k]
        new_state = state_of(B, approx)
        for name, real in zip(("cav", "old", "model"), c["fa"]):
            if not same_field(B, real, parse_field(ms[name])):
                ctx.disagree("C18.run-approx-" + name, case | {"step": k}, show(real), show(parse_field(ms[name])))
        if not same_field(B, new_state[c["f"]], parse_field(ms["new"])):
            ctx.disagree("C18.run-new-message", case | {"step": k}, show(new_state[c["f"]]), show(parse_field(ms["new"])))
        glob = field_of(B, approx.mean_field)
        if not same_field(B, glob, parse_field(ms["global"])):
            ctx.disagree("C18.run-global", case | {"step": k}, show(glob), show(parse_field(ms["global"])))
        if bool(st.success) != ms["success"]:
            ctx.disagree("C18.run-status", case | {"step": k}, bool(st.success), ms["success"])
        op = {"f": c["f"], "success": c["success"]}
        oracle_approx(ctx, B, case, fields[-1], c["f"], *c["fa"], where=f"run step {k}")
        dv = delta_values(B, updater_spec, sorted(c["q"]), fields[-1], None)
        # the status handed to the history is the one after the projection
        oracle_update(ctx, B, case, k, op, fields[-1], new_state, c["fa"], c["q"], st, True, dv, fl)
        oracle_global(ctx, B, case, new_state, glob, f"after run step {k}")
        ctx.hit("run-step:" + ("optimiser-raised" if c.get("raises") else "fitted"))
        if st.result != (None if c.get("raises") else ("result", c["tag"])):
            ctx.fail("C18-history-result", "the history entry of an update does not carry that update's result", case,
                     {"step": k, "result": st.result, "want": c["tag"]})
        fields.append(new_state)
    final_state = state_of(B, final)
    if {f: wire_field(x) for f, x in final_state.items()} != {f: wire_field(x) for f, x in fields[-1].items()}:
        ctx.fail("C18-run-final", "the approximation returned by EPOptimiser.run is not the state after the last update", case, None)
    m_final = parse_state(ans["final"])
    if sorted(m_final) != sorted(final_state) or not all(same_field(B, final_state[f], m_final[f]) for f in m_final):
        ctx.disagree("C18.run-final-state", case, {f: show(x) for f, x in final_state.items()}, {f: show(x) for f, x in m_final.items()})
    check_results(ctx, B, case, fl, res, [(c["f"], bool(st.success), c["tag"]) for c, (_, st) in zip(calls, seq)],
                  ans["latest"], final_state)


# ---------------------------------------------------------------------------------------------
# history accessor alone


def hist_case(ctx, entries, label="gen"):
    fl = probe_flags(ctx)
    B = build(W_SHARED)
    h = FactorHistory(B.model_factors[0])
    for s, t in entries:
        h(None, Status(success=bool(s), result=("result", int(t))))
    try:
        got = h.latest_result[1]
    except exc.HistoryException:
        got = None
    case = {"kind": "hist", "entries": entries}
    ans = ctx.lean.ask({"p": "C18", "q": "hist", "cfg": cfg_wire(fl), "entries": [[bool(s), int(t)] for s, t in entries]})
    ctx.case(case, nontrivial=sum(1 for s, _ in entries if s) >= 2, sample=case if len(entries) < 6 else None)
    ctx.hit("hist")
    if ans.get("latest") != got:
        ctx.disagree("C18.hist-latest", case, got, ans.get("latest"))
    ok = [t for s, t in entries if s]
    want = ok[-1] if ok else None
    if got != want:
        cls = "C18-latest-result-first" if (ok and got == ok[0] and not fl["latestIsLast"]) else "C18-latest-result"
        ctx.fail(cls, "latest_result of a factor is not the result of its most recent successful optimisation", case,
                 {"got": got, "want": want})


# ---------------------------------------------------------------------------------------------


def one(ctx, c, label):
    kind = c.get("kind", "graph")
    if kind == "hist":
        hist_case(ctx, c["entries"], label)
    elif kind == "run":
        run_case(ctx, c["program"], c["rounds"], c["updater"], c["via"], script=c.get("script"), label=label)
    elif kind == "plate":
        from c18_plate import plate_case
        plate_case(ctx, c["program"], ops=c.get("ops", []), label=label)
    else:
        graph_case(ctx, c["program"], ops=c.get("ops", []), label=label)


def run(ctx):
    ctx.rule = RULE
    ctx.assumptions = [
        "messages are univariate with two natural parameters (Normal and the transformed Normal messages of Uniform / LogUniform priors); "
        "product / quotient / power of messages act as + / - / scalar multiple on natural parameters (C17)",
        "the factor optimisers are scripted: the new model distribution of a factor is an input (any proper message per variable of the factor)",
        "damping exponents lie in [0, 1] (per variable) or are any float >= 0 (scalar; >= 1 is a full update)",
        "tolerance 1e-9 relative to the largest natural parameter seen for the variable (numpy works in doubles, the model in exact rationals)",
    ]
    probe_flags(ctx)
    for f in sorted((VERIF / "corpus" / "C18").glob("*.json")):
        one(ctx, json.loads(f.read_text()), f.name)
    rng = ctx.rng
    for _ in range(ctx.n(150, 2500)):
        prog = gen_program(rng, edge=rng.random() < 0.15)
        graph_case(ctx, prog, n_ops=rng.choice([0, 1, 2, 3, 5, 8, 12, 20]))
    for _ in range(ctx.n(30, 400)):
        prog = gen_program(rng)
        r = rng.random()
        if r < 0.4:
            spec, via = {"k": "scalar", "d": f2h(1.0)}, "declarative"
        elif r < 0.7:
            spec, via = {"k": "scalar", "d": f2h(rng.choice([1.0, 0.5, round(rng.uniform(0.1, 0.9), 2)]))}, "optimiser"
        else:
            d = 1.0 if probe_flags(ctx)["powZeroOk"] and rng.random() < 0.5 else round(rng.uniform(0.3, 0.9), 2)
            spec, via = {"k": "dynamic", "d": f2h(d)}, "optimiser"
        run_case(ctx, prog, rng.randint(1, 3), spec, via)
    for _ in range(ctx.n(30, 400)):
        n = rng.randint(0, 7)
        hist_case(ctx, [[rng.random() < 0.6, k + 1] for k in range(n)])
    # array-valued messages, plates, batches, log_norm (harness/c18_plate.py)
    from c18_plate import run_plate, RULE_PLATE
    ctx.rule = RULE + RULE_PLATE
    run_plate(ctx)


def replay(ctx, payload):
    case = payload.get("case") or payload.get("disagreements", [{}])[0].get("case")
    one(ctx, case, "replay")
