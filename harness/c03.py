"""C03 — limits and assertions gate every instance.

C01's programs + add_assertion at random nodes; vectors around the decision surface; outcome
(instance | PriorLimitException | FitException) vs the Lean `gate`; oracle = the inequalities
evaluated in plain Python on the numbers."""
import math
import random as pyrandom

import numpy as np

from common import f2h, h2f
import gen_comp
import extract_comp as X
import c01
import c03_grow

from autofit import exc
from autofit.mapper.prior.abstract import Prior
from autofit.mapper.prior_model.abstract import AbstractPriorModel
from autofit.mapper.prior_model.array import Array
from autofit.mapper.prior_model.prior_model import Model
from autofit.mapper.prior_model.collection import Collection
from autofit.mapper.prior.arithmetic.compound import CompoundPrior, ModifiedPrior

RULE = (
    "C01 programs plus 0-6 assertions (simple, monotone chains of 2-3 comparisons, on priors / constants / "
    "arithmetic expressions, literal False) attached at random model/collection nodes at any depth; vectors "
    "inside limits, exactly on a limit, one ulp outside, far outside, NaN; pairs of compared parameters made "
    "equal / one ulp apart; both ignore flags; non-trivial = at least one assertion or a value on/outside a limit"
)


def reachable_models(root):
    """prior-model nodes in the order instance_for_arguments visits them"""
    out, seen = [], set()

    def visit(m):
        if id(m) in seen or not isinstance(m, AbstractPriorModel):
            return
        seen.add(id(m))
        out.append(m)
        if isinstance(m, (CompoundPrior,)):
            visit(m._left)
            visit(m._right)
            return
        if isinstance(m, ModifiedPrior):
            visit(m.prior)
            return
        for k, v in m.__dict__.items():
            if k.startswith("_"):
                continue
            visit(v)

    visit(root)
    return out


def assert_tree(m):
    """the recursion tree of instance_for_arguments with each node's own assertions (no sharing
    collapse: a shared sub-model is checked at every visit, as the code does)"""
    if isinstance(m, CompoundPrior):
        kids = [m._left, m._right]
    elif isinstance(m, ModifiedPrior):
        kids = [m.prior]
    else:
        kids = [v for k, v in m.__dict__.items() if not k.startswith("_")]
    return {"a": [X.asrt_node(a) for a in getattr(m, "_assertions", []) or []],
            "c": [assert_tree(k) for k in kids if isinstance(k, AbstractPriorModel)]}


def add_assertions(rng, prog, n_max=6):
    """append assert statements to a generated program (before the root statement); operands are
    priors / expressions that occur in the model (an assertion on a foreign prior is a user error)"""
    prog = list(prog)
    root_stmt = prog.pop()
    try:
        H = gen_comp.run_program(prog + [root_stmt])
        in_model = {p.id for p in H["root"].priors}
    except Exception:
        return prog + [root_stmt]
    models = [s["h"] for s in prog if s["op"] in ("model", "coll_list", "coll_dict", "coll_kw")]
    priors = [s["h"] for s in prog if s["op"] == "prior" and H[s["h"]].id in in_model]

    def expr_ok(h):
        try:
            return all(p.id in in_model for p in H[h].priors)
        except Exception:
            return False

    exprs = [s["h"] for s in prog if s["op"] in ("arith", "modif") and expr_ok(s["h"])]
    n = rng.choice([0, 1, 1, 2, 3, n_max]) if priors else 0
    for _ in range(n):
        tgt = rng.choice(models)
        if rng.random() < 0.04:
            e = {"lit": False}
        else:
            asc = rng.random() < 0.5
            k = rng.choice([1, 1, 1, 2, 2])  # (a third link would compare the compound's truth value: unsupported)
            ops = [rng.choice(["<", "<="] if asc else [">", ">="]) for _ in range(k)]

            chosen = []

            def overlapping():
                """priors whose support overlaps that of the priors already in this chain (a chain whose
                operands cannot be ordered both ways is decided by the limits alone)"""
                if not chosen:
                    return priors
                lo = max(float(H[h].lower_limit) for h in chosen)
                hi = min(float(H[h].upper_limit) for h in chosen)
                return [h for h in priors if float(H[h].lower_limit) < hi and float(H[h].upper_limit) > lo] or priors

            def operand(force_obj=False):
                r = rng.random()
                if r < 0.6 or force_obj or (k >= 2 and r < 0.85):
                    if exprs and rng.random() < 0.25 and k < 2:
                        return {"h": rng.choice(exprs)}
                    h = rng.choice(overlapping())
                    chosen.append(h)
                    return {"h": h}
                if chosen:
                    lo = max(float(H[h].lower_limit) for h in chosen)
                    hi = min(float(H[h].upper_limit) for h in chosen)
                    if lo < hi and math.isfinite(lo) and math.isfinite(hi) and rng.random() < 0.7:
                        return rng.uniform(lo, hi)
                return rng.uniform(-40, 40)

            operands = [operand() for _ in range(k + 1)]
            # every comparison of the chain must involve a prior or an expression
            for j in range(k):
                if not isinstance(operands[j], dict) and not isinstance(operands[j + 1], dict):
                    operands[j + 1] = operand(force_obj=True)
            e = {"ops": ops, "operands": operands}
        prog.append({"op": "assert", "h": tgt, "expr": e})
    prog.append(root_stmt)
    return prog


def eval_operand(o, H, args):
    if isinstance(o, dict):
        return c01.eval_expr(H[o["h"]], args)
    return o


def eval_assert_plain(e, H, args):
    """direct evaluation of the inequalities on the numbers"""
    import operator as op_

    if "lit" in e:
        return bool(e["lit"])
    vals = [eval_operand(o, H, args) for o in e["operands"]]
    return all(gen_comp.CMP[o](vals[k], vals[k + 1]) for k, o in enumerate(e["ops"]))


def vectors(rng, model, prog, H):
    priors = list(model.priors_ordered_by_id)
    base = c01.test_vector(rng, model)
    out = [("inside", list(base))]
    if not priors:
        return out
    for _ in range(3):
        v = list(base)
        j = rng.randrange(len(v))
        p = priors[j]
        lo, hi = p.lower_limit, p.upper_limit
        kind = rng.choice(["on-lo", "on-hi", "below", "above", "far", "nan", "ulp-in"])
        if kind == "on-lo" and math.isfinite(lo):
            v[j] = lo
        elif kind == "on-hi" and math.isfinite(hi):
            v[j] = hi
        elif kind == "below" and math.isfinite(lo):
            v[j] = math.nextafter(lo, -math.inf)
        elif kind == "above" and math.isfinite(hi):
            v[j] = math.nextafter(hi, math.inf)
        elif kind == "far":
            v[j] = (hi if math.isfinite(hi) else 1e6) + 1e3 * rng.random() + 1.0
        elif kind == "nan":
            v[j] = float("nan")
        elif kind == "ulp-in" and math.isfinite(lo):
            v[j] = math.nextafter(lo, math.inf)
        else:
            kind = "inside2"
            v[j] = c01.test_vector(rng, model)[j]
        out.append((kind, v))
    # make the two sides of *every link* of every comparison equal / one ulp apart
    rank = {p.id: j for j, p in enumerate(priors)}
    asserts = [s for s in prog if s["op"] == "assert" and "ops" in s["expr"]]
    rng.shuffle(asserts)
    for s in asserts[:4]:
        operands = s["expr"]["operands"]
        for k in range(len(operands) - 1):
            left, right = operands[k], operands[k + 1]
            lo = H[left["h"]] if isinstance(left, dict) else left
            ro = H[right["h"]] if isinstance(right, dict) else right
            lp = isinstance(lo, Prior) and lo.id in rank
            rp = isinstance(ro, Prior) and ro.id in rank
            v = list(base)
            mode = rng.choice(["eq", "eq", "up", "down", "swap"])
            if lp and rp and lo.id != ro.id:
                a, b = rank[lo.id], rank[ro.id]
                if mode == "eq":
                    v[b] = v[a]
                elif mode == "up":
                    v[b] = math.nextafter(v[a], math.inf)
                elif mode == "down":
                    v[b] = math.nextafter(v[a], -math.inf)
                else:
                    v[a], v[b] = v[b], v[a]
                out.append(("pair-" + mode, v))
            elif (lp and isinstance(ro, float)) or (rp and isinstance(lo, float)):
                j, c = (rank[lo.id], ro) if lp else (rank[ro.id], lo)
                v[j] = {"eq": c, "up": math.nextafter(c, math.inf), "down": math.nextafter(c, -math.inf), "swap": c}[mode]
                out.append(("const-edge", v))
    # chains of two or more links: every relative order of the operands (the verdict of a chain is that of
    # each *adjacent* pair; which operands a link compares only shows when a non-adjacent pair is ordered
    # differently), realised inside the limits where the supports of the operands overlap
    import itertools
    for s in [a_ for a_ in asserts if len(a_["expr"]["operands"]) >= 3][:4]:
        operands = s["expr"]["operands"]
        slots = []
        for o in operands:
            obj = H[o["h"]] if isinstance(o, dict) else o
            if isinstance(obj, Prior) and obj.id in rank:
                slots.append(("p", rank[obj.id], float(obj.lower_limit), float(obj.upper_limit)))
            elif isinstance(obj, float):
                slots.append(("c", obj))
            else:
                slots = None
                break
        if not slots or len({sl[1] for sl in slots if sl[0] == "p"}) < 2:
            continue
        lo = max([sl[2] for sl in slots if sl[0] == "p"] + [-1e6])
        hi = min([sl[3] for sl in slots if sl[0] == "p"] + [1e6])
        if not lo < hi:
            continue
        consts = [sl[1] for sl in slots if sl[0] == "c" and lo <= sl[1] <= hi]
        cands = sorted(set(consts + [lo + (hi - lo) * q for q in (0.2, 0.5, 0.8)]))
        pidx = sorted({sl[1] for sl in slots if sl[0] == "p"})
        combos = list(itertools.product(cands, repeat=len(pidx)))
        rng.shuffle(combos)
        for combo in combos[:20]:
            v = list(base)
            for j, x in zip(pidx, combo):
                v[j] = x
            out.append(("chain-order", v))
    return out


def outcome(f, *a, **k):
    try:
        return ("ok", f(*a, **k))
    except exc.PriorLimitException as e:
        return ("err", "priorLimit")
    except exc.FitException as e:
        return ("err", "fit")
    except AssertionError as e:
        return ("err", "length")
    except Exception as e:
        return ("err", "other:" + type(e).__name__ + ":" + str(e)[:100])


def one_case(ctx, prog, vecs=None, label="gen"):
    rng = ctx.rng
    try:
        H = gen_comp.run_program(prog)
    except Exception as e:
        ctx.hit("program-rejected:" + type(e).__name__)
        return
    model = H["root"]
    comp = X.node_of(model)
    nodes = reachable_models(model)
    reach = {id(m) for m in nodes}
    wire_asserts = []
    for m in nodes:
        for a in getattr(m, "_assertions", []) or []:
            wire_asserts.append(X.asrt_node(a))
    if any(a.get("a") == "unknown" for a in wire_asserts):
        ctx.hit("unknown-assertion-object")
        return
    atree = assert_tree(model)
    prog_asserts = [s for s in prog if s["op"] == "assert" and id(H[s["h"]]) in reach]
    priors = list(model.priors_ordered_by_id)
    lims = [[f2h(p.lower_limit), f2h(p.upper_limit)] for p in priors]
    loose = c01.has_loose(comp) or c01.has_loose(wire_asserts)
    todo = vecs if vecs is not None else vectors(rng, model, prog, H)
    for kind, v in todo:
        for ignore in (False, True):
            req = {"p": "C03", "comp": comp, "lims": lims, "asserts": wire_asserts, "atree": atree, "v": [f2h(x) for x in v], "ignore": ignore}
            ans = ctx.lean.ask(req)
            if "driver_error" in ans:
                ctx.disagree("driver", {"program": prog, "vector": v}, None, ans)
                return
            r = outcome(model.instance_from_vector, v, ignore_prior_limits=ignore)
            impl = {"ok": X.canon_inst(X.inst_of(r[1]))} if r[0] == "ok" else {"err": r[1]}
            case = {"program": prog, "vector": v, "ignore": ignore, "kind": kind, "label": label}
            nontrivial = bool(prog_asserts) or kind != "inside"
            ctx.case({"comp": comp, "a": wire_asserts, "v": req["v"], "i": ignore}, nontrivial=nontrivial,
                     sample={"program": gen_comp.program_text(prog)[-500:], "vector": v, "ignore": ignore, "outcome": impl.get("err", "instance")})
            ctx.hit("vec:" + kind)
            ctx.hit("outcome:" + (impl.get("err", "instance").split(":")[0]))
            ctx.hit(f"asserts:{min(len(prog_asserts), 4)}")

            # --- correspondence
            m_out = {"ok": X.canon_inst(ans["ok"])} if "ok" in ans else {"err": ans["err"]}
            if ("err" in impl) != ("err" in m_out) or ("err" in impl and impl["err"] != m_out["err"]):
                if not ("ok" in m_out and c01.contains_missing_or_domain(m_out["ok"]) and "err" in impl and impl["err"].startswith("other")):
                    ctx.disagree("C03.outcome", case, impl.get("err", "instance"), m_out.get("err", "instance"))
            elif "ok" in impl:
                d = X.inst_diff(impl["ok"], m_out["ok"], 4 if loose else 0)
                if d and not c01.arith_domain(impl["ok"], m_out["ok"]):
                    ctx.disagree("C03.instance", case, {"diff_at": d[0], "impl": d[1]}, {"model": d[2]})

            # --- the gate computed in Lean from the assertion-carrying composition (tree, trace) - c03_grow.py
            c03_grow.comp_clause_sampled(ctx, model, comp, lims, atree, v, ignore, case, loose)

            # --- oracle: the property sentence
            args = {p: x for p, x in zip(priors, v)}
            lim_ok = all(p.lower_limit <= x <= p.upper_limit for p, x in zip(priors, v))
            try:
                verdicts = [eval_assert_plain(s["expr"], H, args) for s in prog_asserts]
            except Exception:
                ctx.hit("oracle-undefined")
                continue
            if any(isinstance(x, complex) for x in []):
                continue
            want_instance = ignore or (lim_ok and all(verdicts))
            if want_instance and "err" in impl:
                if impl["err"].startswith("other") and ("ok" in m_out and c01.contains_missing_or_domain(m_out["ok"])):
                    continue
                ctx.fail("C03-rejected-valid" if not ignore else "C03-ignore-raises",
                         "an instance was refused although every limit and assertion holds" if not ignore else
                         "instance_from_vector(ignore_prior_limits=True) raised", case,
                         {"impl": impl["err"], "limits_ok": lim_ok, "assertions": verdicts})
            if not want_instance and "ok" in impl:
                ctx.fail("C03-accepted-invalid", "an instance was produced although a limit or an assertion is violated", case,
                         {"limits_ok": lim_ok, "assertions": verdicts})
            if not want_instance and "err" in impl and impl["err"] not in ("priorLimit", "fit"):
                ctx.fail("C03-wrong-exception", "violation did not raise the library's FitException", case, impl["err"])

    # a model read back from its own dictionary form gates as the model it was written from - on every call, not
    # only the first (the values are carried over path by path)
    if prog_asserts and priors and (label != "gen" or rng.random() < 0.5):
        reloaded_gate(ctx, prog, H, model, prog_asserts, todo, label)
    # routes and flags, operator-built assertions (Lean gateRoute / cmpOpnd, chainOpnd, reflOpnd) - c03_grow.py
    if vecs is None or label.startswith("route"):
        c03_grow.route_clause(ctx, model, comp, lims, priors, prog, prog_asserts, H, todo, eval_assert_plain, loose)
        c03_grow.build_clause(ctx, model, comp, priors, prog, H, todo[0][1], gen_comp.CMP)

    # unit route and random_instance: whatever comes back must satisfy every limit and assertion
    if priors:
        for _ in range(2):
            units = [rng.uniform(0.02, 0.98) for _ in priors]
            r = outcome(model.instance_from_unit_vector, units)
            try:
                phys = [p.value_for(u, ignore_prior_limits=True) for p, u in zip(priors, units)]
                args = {p: x for p, x in zip(priors, phys)}
                lim_ok = all(p.lower_limit <= x <= p.upper_limit for p, x in zip(priors, phys))
                verdicts = [eval_assert_plain(s["expr"], H, args) for s in prog_asserts]
            except Exception:
                continue
            want = lim_ok and all(verdicts)
            ctx.hit("unit-route:" + ("instance" if r[0] == "ok" else r[1].split(":")[0]))
            if want != (r[0] == "ok") and not (r[0] == "err" and r[1].startswith("other")):
                ctx.fail("C03-unit-route", "instance_from_unit_vector verdict differs from the inequalities on the mapped values",
                         {"program": prog, "units": units}, {"impl": "instance" if r[0] == "ok" else r[1], "limits_ok": lim_ok, "assertions": verdicts})


def reloaded_gate(ctx, prog, H, model, prog_asserts, todo, label):
    import json as _json
    # literal assertions and assertions on components without free parameters have no dictionary form (DESIGN A.6)
    # ... nor have assertions attached to an arithmetic (compound / modified) prior object itself
    if any("lit" in s["expr"] or H[s["h"]].prior_count == 0 or isinstance(H[s["h"]], (CompoundPrior, ModifiedPrior)) for s in prog_asserts):
        ctx.hit("reloaded:not-representable")
        return
    try:
        re = AbstractPriorModel.from_dict(_json.loads(_json.dumps(model.dict())))
        old_pp = {tuple(map(str, p)): pr for p, pr in model.path_priors_tuples}
        new_pp = [(tuple(map(str, p)), pr) for p, pr in re.path_priors_tuples]
        if set(old_pp) != {p for p, _ in new_pp} or re.prior_count != model.prior_count:
            ctx.hit("reloaded:paths-differ")  # persistence is C08's subject
            return
        rank = {pr.id: j for j, pr in enumerate(model.priors_ordered_by_id)}
        new_order = list(re.priors_ordered_by_id)
        place = {}
        for p, pr in new_pp:
            place.setdefault(pr.id, p)
    except Exception as e:  # noqa
        ctx.hit("reloaded:raised:" + type(e).__name__)
        return
    ctx.hit("reloaded:gated")
    # twice through the vectors: what the first calls did to the reloaded model must not matter
    for kind, v in list(todo) + list(todo):
        v2 = [v[rank[old_pp[place[pr.id]].id]] for pr in new_order]
        a = outcome(model.instance_from_vector, v)
        b = outcome(re.instance_from_vector, v2)
        ka, kb = ("ok" if a[0] == "ok" else a[1].split(":")[0]), ("ok" if b[0] == "ok" else b[1].split(":")[0])
        if ka != kb:
            ctx.fail("C03-reloaded-model-gates-differently",
                     "a model read back from its dictionary form accepts / rejects a vector differently from the model it was written from",
                     {"program": prog, "vector": v, "kind": kind, "label": label, "reloaded": True},
                     {"original": ka, "reloaded": kb})
            return


def run(ctx):
    ctx.rule = RULE
    ctx.assumptions = [
        "exception_override test switch is false (harness config)",
        "only monotone chains are generated: (a<b)>c has no defined meaning in the library because reflected "
        "comparisons make the last operand ambiguous (DESIGN §6 #0)",
    ]
    import json
    from common import VERIF

    for f in sorted((VERIF / "corpus" / "C03").glob("*.json")):
        c = json.loads(f.read_text())
        one_case(ctx, c["program"], [(c.get("kind", "corpus"), c["vector"])] if "vector" in c else None, label=f.name)
    for _ in range(ctx.n(240, 2500)):
        prog = gen_comp.gen_program(ctx.rng, allow_pow=False)
        prog = add_assertions(ctx.rng, prog)
        if ctx.rng.random() < 0.5:
            prog = c03_grow.grow_program(ctx.rng, prog, gen_comp.run_program)
        one_case(ctx, prog)


def replay(ctx, payload):
    case = payload.get("case") or payload.get("disagreements", [{}])[0].get("case")
    one_case(ctx, case["program"], [(case.get("kind", "replay"), case["vector"])] if "vector" in case else None, label="replay")
