"""C01, construction part: `af.Model(cls, **kwargs)` / `af.Collection(...)` themselves against the Lean
model `mkModel` / `mkCollection` (lean/AFModel/Build.lean), and the member order `posLeL`
(lean/AFModel/NameKey.lean) against the order `TuplePrior.value_for_arguments` uses.

The class signature is read here with `inspect` / `typing` (not with the library): constructor argument
names and the kind of default each has."""
import inspect
import typing

import numpy as np

from common import f2h
import extract_comp as X
import vlib
import vlib_c01

import autofit as af
from autofit.mapper.prior.abstract import Prior
from autofit.mapper.prior.tuple_prior import TuplePrior
from autofit.mapper.prior_model.prior_model import Model
from autofit.mapper.prior_model.collection import Collection

BUILD_CLASSES = {k: v for k, v in vlib.CLASSES.items() if k not in ("Lst",)}  # Lst has no prior configuration
BUILD_CLASSES.update(vlib_c01.CLASSES)


# --- class signature -------------------------------------------------------------------------


def sig_args(cls):
    spec = inspect.getfullargspec(cls.__init__)
    names = [a for a in spec.args if a != "self"]
    defaults = dict(zip(spec.args[-len(spec.defaults):], spec.defaults)) if spec.defaults else {}
    try:
        hints = typing.get_type_hints(cls.__init__)
    except Exception:
        hints = {}
    out = []
    for a in names:
        d = defaults.get(a, inspect.Parameter.empty)
        h = hints.get(a)
        if isinstance(d, str):
            out.append([a, {"d": "str", "tag": f"str:{d}"}])
        elif isinstance(d, tuple):
            out.append([a, {"d": "tup", "n": len(d)}])
        elif h is not None and h is not float:
            if typing.get_origin(h) is tuple:
                out.append([a, {"d": "tup", "n": len(typing.get_args(h))}])
            elif type(None) in typing.get_args(h):
                out.append([a, {"d": "opt"}])
            elif inspect.isclass(h) and not issubclass(h, (float, int)):
                out.append([a, {"d": "sub", "cls": h.__name__, "args": sig_args(h)}])
            else:
                raise ValueError(f"signature of {cls.__name__}.{a} is outside the modelled kinds")
        else:
            out.append([a, {"d": "cfg"}])
    # assumptions of the model about the classes
    tuples = [a for a, d in out if d["d"] == "tup"]
    for a, _ in out:
        assert a != "settings" and not ("_" in a and a.split("_")[0] in tuples), (cls, a)
    return out


def sig_of(cls):
    return {"name": cls.__name__, "args": sig_args(cls)}


# --- keyword values ----------------------------------------------------------------------------


def _flt(rng):
    return rng.choice([0.0, -0.0, 1.0, 0.5, -2.25]) if rng.random() < 0.3 else round(rng.uniform(-20, 20), 3)


def gen_value(rng, depth=0, in_list=False):
    """a JSON-able description of a keyword value / collection item"""
    r = rng.random()
    if r < 0.30:
        return {"t": "prior", "lo": round(rng.uniform(-5, 5), 2), "w": rng.choice([0.5, 1.0, 10.0])}
    if r < 0.40:
        return {"t": "shared"}
    if r < 0.52:
        return {"t": "float", "v": _flt(rng)}
    if r < 0.60:
        return {"t": "int", "v": rng.randint(-3, 9)}
    if r < 0.64:
        return {"t": "bool", "v": rng.random() < 0.5}
    if r < 0.76:
        return {"t": "cls", "cls": rng.choice(["P1", "P2", "P3", "T2", "Nest", "Ann", "Mode", "Idx"])}
    if r < 0.84 and depth < 2:
        cls = rng.choice(["P1", "P2", "T2", "Mode", "Ann"])
        return {"t": "model", "cls": cls, "kw": gen_kwargs(rng, BUILD_CLASSES[cls], depth + 1, plain=True)}
    if r < 0.93 and depth < 2:
        n = rng.choice([0, 1, 2, 3, 3, 11, 12]) if depth == 0 else rng.randint(0, 3)
        return {"t": "list", "items": [gen_value(rng, depth + 1, True) for _ in range(n)]}
    if depth < 2:
        n = rng.randint(0, 3)
        keys = rng.sample(["g", "x1", "comp_a", "z9", "0", "7", "m_0"], n)
        return {"t": "dict", "items": [[k, gen_value(rng, depth + 1, True)] for k in keys]}
    return {"t": "none"}


def gen_kwargs(rng, cls, depth=0, plain=False):
    args = sig_args(cls)
    kw = []
    for a, d in args:
        if rng.random() < (0.45 if not plain else 0.3):
            v = gen_value(rng, depth + 1)
            if d["d"] == "str":
                v = {"t": "str", "v": rng.choice(["y", "x", ""])}
            kw.append([a, v])
    takes_any_keyword = inspect.getfullargspec(cls.__init__).varkw is not None
    if not plain and rng.random() < 0.35:
        # keywords that name no constructor argument
        for _ in range(rng.randint(1, 2)):
            k = rng.choice(["extra", "zz", "note", "w2"])
            r = rng.random()
            if r < 0.55 or takes_any_keyword:
                v = {"t": "float", "v": _flt(rng)} if rng.random() < 0.6 else {"t": "int", "v": rng.randint(0, 5)}
            elif r < 0.7:
                v = {"t": "list", "items": [{"t": "float", "v": 1.5}]}
            elif r < 0.8:
                v = {"t": "str", "v": "s"}
            elif r < 0.9:
                v = {"t": "cls", "cls": "P1"}
            else:
                v = {"t": "prior", "lo": 0.0, "w": 1.0}
            if k not in [x[0] for x in kw]:
                kw.append([k, v])
    tuples = [(a, d["n"]) for a, d in args if d["d"] == "tup" and a not in [x[0] for x in kw]]
    if tuples and not plain and rng.random() < 0.3:
        # a tuple member addressed as a keyword: an existing member (the keyword is ignored) or a further one
        a, n = rng.choice(tuples)
        i = rng.choice([0, n - 1, n, n + 5])
        kw.append([f"{a}_{i}", {"t": "prior", "lo": 0.0, "w": 1.0} if rng.random() < 0.6 else {"t": "float", "v": _flt(rng)}])
    rng.shuffle(kw)
    return kw


def realise(v, env):
    """-> (python value, override description for the model). Priors / models are made here, i.e. before the
    composition under test is made."""
    t = v["t"]
    if t == "prior":
        p = af.UniformPrior(lower_limit=v["lo"], upper_limit=v["lo"] + v["w"])
        env["priors"].append(p)
        return p, {"o": "node", "node": X.node_of(p)}
    if t == "shared":
        if not env["priors"]:
            return realise({"t": "prior", "lo": 0.0, "w": 1.0}, env)
        p = env["priors"][env["rng"].randrange(len(env["priors"]))] if "pick" not in v else env["priors"][v["pick"] % len(env["priors"])]
        v["pick"] = env["priors"].index(p)
        return p, {"o": "node", "node": X.node_of(p)}
    if t == "float":
        return float(v["v"]), {"o": "node", "node": {"k": "const", "v": f2h(v["v"])}}
    if t in ("int", "bool"):
        x = bool(v["v"]) if t == "bool" else int(v["v"])
        return x, {"o": "int", "v": f2h(float(x)), "tag": X.node_of(x)["tag"]}
    if t == "none":
        return None, {"o": "node", "node": X.node_of(None)}
    if t == "str":
        return v["v"], {"o": "node", "node": X.node_of(v["v"])}
    if t == "cls":
        c = BUILD_CLASSES[v["cls"]]
        return c, {"o": "cls", "cls": c.__name__, "args": sig_args(c)}
    if t == "model":
        c = BUILD_CLASSES[v["cls"]]
        kw = [(k, realise(x, env)) for k, x in v["kw"]]
        m = af.Model(c, **{k: a for k, (a, _) in kw})
        return m, {"o": "node", "node": X.node_of(m)}
    if t == "list":
        items = [realise(x, env) for x in v["items"]]
        return [a for a, _ in items], {"o": "list", "items": [o for _, o in items]}
    if t == "dict":
        items = [(k, realise(x, env)) for k, x in v["items"]]
        return {k: a for k, (a, _) in items}, {"o": "dict", "items": [[k, o] for k, (_, o) in items]}
    raise ValueError(t)


def strip(n):
    """the extracted composition without prior descriptors; class defaults merged as the model holds them"""
    if isinstance(n, list):
        return [strip(x) for x in n]
    if not isinstance(n, dict):
        return n
    k = n.get("k")
    if k == "prior":
        return {"k": "prior", "id": n["id"]}
    out = {}
    for key, val in n.items():
        if key in ("defaults", "asserts", "oid", "frozen"):
            continue
        out[key] = strip(val)
    if k == "model" and n.get("defaults"):
        out["attrs"] = out["attrs"] + [[a, strip(d)] for a, d in n["defaults"]]
    return out


def peek_prior_id():
    return next(Prior._ids) + 1


# --- the cases ---------------------------------------------------------------------------------


def build_case(ctx, case):
    """case = {"build": "model", "cls", "kw"} | {"build": "collection", "form", "items"}"""
    from c01 import test_vector, contains_missing_or_domain, arith_domain

    rng = ctx.rng
    env = {"priors": [], "rng": rng}
    if case["build"] == "model":
        cls = BUILD_CLASSES[case["cls"]]
        kw = [(k, realise(v, env)) for k, v in case["kw"]]
        base = peek_prior_id()
        model = af.Model(cls, **{k: a for k, (a, _) in kw})
        after = peek_prior_id() - 1
        req = {"p": "C01", "build": "model", "base": base, "sig": sig_of(cls), "kw": [[k, o] for k, (_, o) in kw]}
    else:
        val, ov = realise(case["items"], env)
        base = peek_prior_id()
        if case["form"] == "kw":
            model = af.Collection(**val)
        elif case["form"] == "args" and isinstance(val, list) and len(val) >= 2:
            model = af.Collection(*val)
        else:
            model = af.Collection(val)
        after = peek_prior_id() - 1
        req = {"p": "C01", "build": "collection", "base": base, "items": ov}
    comp = X.node_of(model)
    impl_node = strip(comp)
    v = test_vector(rng, model)
    req["v"] = [f2h(x) for x in v]
    ans = ctx.lean.ask(req)
    if "driver_error" in ans:
        ctx.disagree("driver", case, None, ans)
        return
    n_ids = model.prior_count
    ctx.case({"build": impl_node, "v": req["v"]}, nontrivial=bool(n_ids >= 2), sample={"case": str(case)[:400]})
    ctx.hit("build:" + case["build"] + (":" + case.get("form", "") if case["build"] == "collection" else ""))
    rcase = dict(case, label="build", vector=v)
    if ans.get("node") != impl_node:
        ctx.disagree("C01.build.node", rcase, impl_node, ans.get("node"))
    if ans.get("next") != after:
        ctx.disagree("C01.build.prior_ids_used", rcase, after - base, (ans.get("next") or 0) - base)
    paths = [list(map(str, p)) for p in model.paths]
    if ans.get("paths") != paths:
        ctx.disagree("C01.build.paths", rcase, paths, ans.get("paths"))
    if ans.get("count") != n_ids:
        ctx.disagree("C01.build.count", rcase, n_ids, ans.get("count"))
    try:
        inst = model.instance_from_vector(v, ignore_prior_limits=True)
        r_inst = ("ok", inst)
    except Exception as e:  # noqa
        r_inst = ("err", type(e).__name__ + ":" + str(e)[:120])
    mi = X.canon_inst(ans["inst_vec"])
    if r_inst[0] == "err":
        if not contains_missing_or_domain(mi):
            ctx.disagree("C01.build.inst_vec", rcase, r_inst[1], mi)
    else:
        ci = X.canon_inst(X.inst_of(inst))
        if case["build"] == "model":
            # a plain list given under a name that is no constructor argument is carried as it is (opaque for the model)
            raw = [k for k, x in case["kw"] if x["t"] == "list" and k not in [a for a, _ in sig_args(cls)]]
            ci["attrs"] = [[k, {"k": "opaque", "tag": "py:list"} if k in raw and x.get("k") == "list" else x] for k, x in ci["attrs"]]
        d = X.inst_diff(ci, mi, 0)
        if d:
            ctx.disagree("C01.build.inst_vec", rcase, {"diff_at": d[0], "impl": d[1]}, {"model": d[2]})

    # ---- oracle: what the property needs of the construction, on the real objects
    if case["build"] == "model":
        construction_oracle(ctx, rcase, cls, kw, model, base, after, v, r_inst)
    else:
        collection_oracle(ctx, rcase, case, val, model)


def construction_oracle(ctx, rcase, cls, kw, model, base, after, v, r_inst):
    args = sig_args(cls)
    given = {k: a for k, (a, _) in kw}
    order = {p.id: j for j, p in enumerate(model.priors_ordered_by_id)}
    fresh = []
    for a, d in args:
        if d["d"] == "str":
            continue
        if a not in model.__dict__:
            ctx.fail("C01-construction-argument-absent", f"constructor argument {a} of {cls.__name__} is no attribute of the model", rcase)
            continue
        held = model.__dict__[a]
        if a in given:
            g = given[a]
            ok = (held is g) if isinstance(g, (Prior, Model)) else \
                 (isinstance(held, float) and f2h(held) == f2h(float(g))) if isinstance(g, (int, float)) and not isinstance(g, bool) or isinstance(g, bool) else \
                 (isinstance(held, Model) and held.cls is g) if inspect.isclass(g) else \
                 (isinstance(held, Collection) and len(held) == len(g)) if isinstance(g, (list, dict)) else (held is g or held == g)
            if not ok:
                ctx.fail("C01-construction-keyword", f"keyword {a} of Model({cls.__name__}, ...) is not what the model holds for {a}", rcase,
                         {"given": repr(g)[:80], "held": repr(held)[:80]})
        elif d["d"] == "cfg":
            if not isinstance(held, Prior) or not (base <= held.id < after):
                ctx.fail("C01-construction-default", f"argument {a} without keyword is not a new prior", rcase, repr(held)[:80])
            else:
                fresh.append(held.id)
        elif d["d"] == "tup":
            if not isinstance(held, TuplePrior):
                ctx.fail("C01-construction-default", f"tuple argument {a} without keyword is not a tuple prior", rcase, repr(held)[:80])
                continue
            members = [(k, p) for k, p in held.__dict__.items() if isinstance(p, Prior)]
            want = [f"{a}_{i}" for i in range(d["n"])]
            extra = [k for k in held.__dict__ if not k.startswith("_") and k != "id" and k not in want]
            ids = [p.id for k, p in members if k in want]
            if [k for k, _ in members if k in want] != want or ids != sorted(ids) or len(set(ids)) != len(ids):
                ctx.fail("C01-construction-tuple-order", f"members of tuple argument {a} are not created in position order", rcase,
                         {"members": [k for k, _ in members], "ids": ids})
            fresh += [i for i in ids if base <= i < after]
            # and the instance holds their values in position order
            if r_inst[0] == "ok" and not extra and all(isinstance(p, Prior) for p in [getattr(held, k) for k in want]):
                got = getattr(r_inst[1], a, None)
                wantv = tuple(v[order[getattr(held, k).id]] for k in want)
                if not (isinstance(got, tuple) and [f2h(x) for x in got] == [f2h(x) for x in wantv]):
                    ctx.fail("C01-construction-tuple-order", f"tuple argument {a}: the instance does not hold the members' values in position order",
                             rcase, {"got": repr(got)[:200], "want": repr(wantv)[:200]})
    if len(set(fresh)) != len(fresh):
        ctx.fail("C01-construction-default", "two arguments share one newly made prior", rcase)
    for k, g in given.items():
        if k in [a for a, _ in args] or "_" in k:
            continue
        if k not in model.__dict__:
            ctx.fail("C01-construction-keyword", f"keyword {k} (no constructor argument) is not an attribute of the model", rcase)
    if r_inst[0] == "ok":
        for a, d in args:
            g = given.get(a)
            if isinstance(g, Prior) and d["d"] != "str":
                got = getattr(r_inst[1], a, None)
                if not (isinstance(got, float) and f2h(got) == f2h(v[order[g.id]])):
                    ctx.fail("C01-construction-keyword", f"the instance does not hold the vector's value for the prior given as keyword {a}", rcase,
                             {"got": repr(got)[:80], "want": v[order[g.id]]})


def collection_oracle(ctx, rcase, case, val, model):
    if isinstance(val, list):
        names = [k for k in model.__dict__ if not k.startswith("_") and k not in X.INERT]
        if names != [str(i) for i in range(len(val))]:
            ctx.fail("C01-construction-collection-names", "items of a list-built collection are not named by their positions, in order", rcase,
                     {"names": names})
    else:
        names = [k for k in model.__dict__ if not k.startswith("_") and k not in X.INERT]
        if names != list(val.keys()):
            ctx.fail("C01-construction-collection-names", "items of a dict/keyword-built collection are not held under their keys, in order", rcase,
                     {"names": names, "keys": list(val.keys())})


def gen_build_case(rng):
    if rng.random() < 0.7:
        names = list(BUILD_CLASSES)
        cls = rng.choice(names + ["T2", "T12", "Ann", "Sub", "Top", "Deep", "Nest", "Mode"])
        if cls == "Wide" and rng.random() < 0.5:
            cls = "Top"
        return {"build": "model", "cls": cls, "kw": gen_kwargs(rng, BUILD_CLASSES[cls])}
    form = rng.choice(["list", "dict", "kw", "args"])
    if form in ("list", "args"):
        n = rng.choice([0, 1, 2, 3, 4, 11, 13])
        items = {"t": "list", "items": [gen_value(rng, 1, True) for _ in range(n)]}
    else:
        keys = rng.sample(["g", "x1", "comp_a", "z9", "m_0", "b"] + (["0", "7", "10"] if form == "dict" else []), rng.randint(0, 4))
        items = {"t": "dict", "items": [[k, gen_value(rng, 1, True)] for k in keys]}
    return {"build": "collection", "form": form, "items": items}


FIXED_CASES = [
    {"build": "model", "cls": c, "kw": []} for c in BUILD_CLASSES
] + [
    {"build": "model", "cls": "T2", "kw": [["pos_0", {"t": "prior", "lo": 0.0, "w": 1.0}]]},
    {"build": "model", "cls": "T2", "kw": [["pos_2", {"t": "prior", "lo": 0.0, "w": 1.0}], ["r", {"t": "int", "v": 3}]]},
    {"build": "model", "cls": "Mode", "kw": [["mode", {"t": "str", "v": "y"}], ["a", {"t": "bool", "v": True}]]},
    {"build": "model", "cls": "Deep", "kw": [["right", {"t": "list", "items": [{"t": "cls", "cls": "P1"}, {"t": "cls", "cls": "P2"}]}],
                                               ["left", {"t": "cls", "cls": "Nest"}], ["extra", {"t": "dict", "items": []}]]},
    {"build": "collection", "form": "list", "items": {"t": "list", "items": [{"t": "cls", "cls": "P1"}] * 12}},
]


# --- the member order --------------------------------------------------------------------------


def gen_names(rng):
    pfx = rng.choice(["p", "pos", "centre_x", "a_b", "v", ""])
    out = set()
    for _ in range(rng.randint(2, 14)):
        r = rng.random()
        if r < 0.6:
            i = rng.choice([rng.randint(0, 12), rng.randint(0, 120), rng.randint(0, 10 ** rng.randint(1, 7))])
            out.add(f"{pfx}_{i}")
        elif r < 0.7:
            out.add(f"{pfx}_0{rng.randint(0, 20)}")  # leading zero: same number as another member
        elif r < 0.8:
            out.add(rng.choice(["q", "pos", "x_", "a_b", "b_a1", "r2", "12", "7", "p_x", "p__3", "z_1_2"]))
        else:
            out.add(f"{rng.choice(['o', 'pos', 'w_w'])}_{rng.randint(0, 30)}")
    out.discard("id")
    out = [n for n in out if n and not n.startswith("_")]
    rng.shuffle(out)
    return out


def names_case(ctx, names, members, indices):
    case = {"label": "names", "names": names, "members": members, "indices": indices}
    tp = TuplePrior()
    for j, n in enumerate(names):
        setattr(tp, n, float(j))
    got = tp.value_for_arguments({})
    impl_sorted = [names[int(x)] for x in got]
    ans = ctx.lean.ask({"p": "C01", "build": "names", "base": 0, "names": names, "members": members, "indices": indices})
    if "driver_error" in ans:
        ctx.disagree("driver", case, None, ans)
        return
    ctx.hit("names")
    if ans["sorted"] != impl_sorted:
        ctx.disagree("C01.member_order", case, impl_sorted, ans["sorted"])
        nums = [(n.rpartition("_")[0], int(n.rpartition("_")[2])) for n in names if n.rpartition("_")[2].isdigit() and n.rpartition("_")[2].isascii()]
        by_pfx = {}
        for n in impl_sorted:
            p, _, s = n.rpartition("_")
            if s.isdigit() and str(int(s)) == s:
                by_pfx.setdefault(p, []).append(int(s))
        for p, seq in by_pfx.items():
            if seq != sorted(seq):
                ctx.fail("C01-tuple-member-order", f"members {p}_i of a tuple parameter are not placed in the order of their numbers", case,
                         {"order": impl_sorted})
    if ans["sorted_splitOn"] != ans["sorted"]:
        ctx.disagree("C01.member_order.two_renderings", case, ans["sorted_splitOn"], ans["sorted"])
    if ans["members"] != ["{}_{}".format(n, i) for n, i in members]:
        ctx.disagree("C01.member_name", case, ["{}_{}".format(n, i) for n, i in members], ans["members"])
    if ans["indices"] != [str(i) for i in indices]:
        ctx.disagree("C01.index_name", case, [str(i) for i in indices], ans["indices"])


def run_build(ctx):
    rng = ctx.rng
    for c in FIXED_CASES:
        build_case(ctx, c)
    for _ in range(ctx.n(120, 2500)):
        build_case(ctx, gen_build_case(rng))
    for _ in range(ctx.n(40, 800)):
        members = [[rng.choice(["p", "pos", "c_x"]), rng.choice([rng.randint(0, 20), rng.randint(0, 10 ** 9)])] for _ in range(4)]
        indices = [rng.choice([rng.randint(0, 20), rng.randint(0, 10 ** 9)]) for _ in range(4)]
        names_case(ctx, gen_names(rng), members, indices)


def replay_build(ctx, case):
    if case.get("label") == "names":
        return names_case(ctx, case["names"], case["members"], case["indices"])
    return build_case(ctx, {k: v for k, v in case.items() if k not in ("label", "vector")})
