"""C04, table part: every search class and the fitness object it builds.

A. the table compiled into the Lean model (lean/AFModel/Generated/C04.lean) against the table read from the
   source tree now (harness/tables_c04.py: AST of autofit/non_linear/search/**) - the theorems `table_*` speak
   about the compiled one;
B. the property's "designated resample value" re-stated in plain Python on the rows read from the source;
C. the AST reading against what happens: every search class that can be constructed here is asked to `_fit`, the
   fitness object it builds is caught as it leaves `Fitness.__init__`, its class and flags are compared with the row;
D. that very object (built by the search's own code) is called on vectors with scripted likelihood outcomes and
   compared with the model's `rowRun` for the row of that search class (the request names the class only, the
   model takes the flags from its table), histories included; the oracle recomputes the property sentence."""
import contextlib
import io
import os

import numpy as np

from common import f2h, h2f, close, REPO, scratch_dir
import extract_comp as X
import tables_c04
import vlib

import autofit as af
from autofit import exc
from autofit.non_linear.fitness import Fitness

ROW_KEYS = ("name", "family", "owner", "fitness_class", "fom_is_log_likelihood", "convert_to_chi_squared", "history",
            "resample_bits", "passes_paths")


class _Built(BaseException):
    """ends `_fit` as soon as the fitness object exists"""


def plain_designated(row):
    """the property's 'designated resample value' and 'posterior space' directly on a row (no model involved):
    returns a list of (classifier, text)"""
    out = []
    swarm = row["fitness_class"] == "pyswarms"
    minimises = row["convert_to_chi_squared"] or swarm
    posterior = (not row["fom_is_log_likelihood"]) or swarm
    resample = h2f(row["resample_bits"])
    received = -2.0 * resample if swarm else resample
    worst = (received >= 1.0e99) if minimises else (received <= -1.0e99)
    if not worst:
        out.append(("C04-search-resample-looks-good",
                    f"{row['name']}: a vector that cannot be evaluated is handed to the search as {received!r} while the search "
                    f"{'minimises' if minimises else 'maximises'} its figure of merit"))
    fam = row["family"]
    if (fam == "nest" and (posterior or minimises)) or (fam == "mcmc" and (not posterior or minimises)) or (fam == "mle" and not posterior):
        out.append(("C04-search-space",
                    f"{row['name']} ({fam}): figure of merit in {'posterior' if posterior else 'likelihood'} space, "
                    f"{'times -2' if minimises else 'not negated'}"))
    if swarm and (row["fom_is_log_likelihood"] or not row["convert_to_chi_squared"]):
        out.append(("C04-search-space", f"{row['name']}: flags given to FitnessPySwarms do not say what it does"))
    return out


def all_search_classes():
    from autofit.non_linear.search.abstract_search import NonLinearSearch
    seen, todo = [], [NonLinearSearch]
    while todo:
        c = todo.pop()
        for s in c.__subclasses__():
            if s not in seen:
                seen.append(s)
                todo.append(s)
    return [c for c in seen if c.__module__.startswith("autofit.non_linear.search")]


def catch_fitness(name, analysis, model, kwargs):
    """the fitness object `af.<name>(**kwargs)._fit(model, analysis)` builds (None, reason) when it cannot be had here"""
    box = []
    orig = Fitness.__init__

    def init(self, *a, **k):
        orig(self, *a, **k)
        box.append(self)
        raise _Built()

    Fitness.__init__ = init
    cwd = os.getcwd()
    try:
        os.chdir(scratch_dir())
        with contextlib.redirect_stdout(io.StringIO()), contextlib.redirect_stderr(io.StringIO()):
            try:
                search = getattr(af, name)(**kwargs)
                search._fit(model, analysis)
            except _Built:
                pass
            except ImportError as e:
                return None, "sampler-not-installed"
    finally:
        Fitness.__init__ = orig
        os.chdir(cwd)
    if not box:
        return None, "no-fitness-built"
    return box[0], None


def run_rows(ctx, live):
    import c04
    import c04_logprior
    rng = ctx.rng
    rows = {r["name"]: r for r in live["rows"]} if live else {}
    exported = sorted(c.__name__ for c in all_search_classes())
    for cls in all_search_classes():
        if rows and cls.__name__ not in rows and _fits(cls):
            ctx.disagree("C04.table-coverage", {"label": "table", "search": cls.__name__}, "search class with a _fit of its own", "no row")
    for name in exported:
        if getattr(af, name, None) is None or (rows and name not in rows):
            ctx.hit(f"row:{name}:not-exported")
            continue
        for _ in range(ctx.n(1, 6)):
            model = af.Model(vlib.P2, a=af.UniformPrior(0.0, 1.0), b=af.GaussianPrior(mean=1.0, sigma=0.5))
            analysis = c04.ScriptedAnalysis()
            analysis.wrap = rng.choice(["float", "float", "np.float64", "0-d array"])
            kwargs = {}
            row = rows.get(name)
            dyn = bool(row and row["history"] == "dynamic")
            hist_arg = rng.random() < 0.6
            if dyn and "BFGS" in name:
                kwargs["visualize"] = hist_arg
            try:
                fit, why = catch_fitness(name, analysis, model, kwargs)
            except Exception as e:  # noqa
                ctx.hit(f"row:{name}:construction-ended-with-{type(e).__name__}")
                break
            if fit is None:
                ctx.hit(f"row:{name}:{why}")
                break
            seen = {"fitness_class": "pyswarms" if type(fit).__name__ == "FitnessPySwarms" else ("plain" if type(fit) is Fitness else type(fit).__name__),
                    "fom_is_log_likelihood": bool(fit.fom_is_log_likelihood), "convert_to_chi_squared": bool(fit.convert_to_chi_squared),
                    "resample_bits": f2h(fit.resample_figure_of_merit) if f2h(fit.resample_figure_of_merit) != "nan" else "7ff8000000000000",
                    "store_history": bool(fit.store_history), "passes_paths": fit.paths is not None}
            case = {"label": "row", "search": name, "kwargs": kwargs, "seen": seen}
            # ---- C: the row read from the source describes the object that is built
            if row is not None:
                want_hist = {"off": False, "on": True, "dynamic": hist_arg if kwargs else seen["store_history"]}[row["history"]]
                exp = {k: row[k] for k in ("fitness_class", "fom_is_log_likelihood", "convert_to_chi_squared", "resample_bits", "passes_paths")}
                exp["store_history"] = want_hist
                if exp != seen:
                    ctx.disagree("C04.table-runtime", case, seen, exp)
                    for cl, text in plain_designated({**row, **{k: seen[k] for k in ("fitness_class", "fom_is_log_likelihood", "convert_to_chi_squared", "resample_bits")}}):
                        ctx.fail(cl, text, case, seen)
                    break
            ctx.hit(f"row:{name}:observed")
            # ---- D: calls on the object the search built
            priors = list(model.priors_ordered_by_id)
            lims = [[f2h(p.lower_limit), f2h(p.upper_limit)] for p in priors]
            pdesc = []
            for p in priors:
                d = X.prior_node(p)
                pdesc.append({k: d[k] for k in ("kind", "mean", "sigma") if k in d})
            calls = []
            for _k in range(rng.randint(3, 8)):
                r = rng.random()
                a = rng.uniform(0.0, 1.0) if r < 0.7 else rng.choice([-0.25, 1.5, 0.0, 1.0])
                b = rng.choice([rng.uniform(-1.0, 3.0), 1.0, rng.uniform(-50, 50)])
                calls.append({"v": [a, b], "o": c04.gen_outcome(rng)})
            swarm = seen["fitness_class"] == "pyswarms"
            req = {"p": "C04", "search": name, "hist": seen["store_history"], "comp": X.node_of(model), "lims": lims, "asserts": [],
                   "priors": pdesc, "prior_table": c04_logprior.prior_table(X.node_of(model)), "cfg": {"fom_is_ll": True, "chi": False, "history": False, "resample": f2h(0.0)},
                   "calls": [{"v": [f2h(x) for x in c["v"]], "o": c04.wire_outcome(c["o"])} for c in calls]}
            ans = ctx.lean.ask(req)
            case = case | {"calls": calls, "wrap": analysis.wrap}
            if "driver_error" in ans:
                ctx.disagree("driver", case, None, ans)
                break
            got = []
            buf = np.zeros(2)
            for c in calls:
                analysis.next = c["o"]
                buf[:] = c["v"]
                try:
                    out = fit(np.array([c["v"]])) if swarm else fit(buf)
                    got.append(float(out[0]) if swarm else float(out))
                except Exception as e:
                    got.append("raises" if not isinstance(e, exc.FitException) else "raises-fit")
            ctx.case(req, nontrivial=True, sample={"search": name, "seen": seen, "results": got[:3]})

            def lp_of(c):
                try:
                    return [float(p.log_prior_from_value(x)) for p, x in zip(priors, c["v"])]
                except Exception:
                    return []

            def same(a, b, c):
                if isinstance(a, str) or isinstance(b, str):
                    return a == b
                if close(a, b, ulps=4):
                    return True
                sc = (abs(c["o"]) if not isinstance(c["o"], str) else 0.0) + sum(abs(t) for t in lp_of(c) if t == t and abs(t) != float("inf"))
                return sc == sc and sc != float("inf") and abs(a - b) <= 1e-11 * max(2.0 * sc, 1e-300)

            m_results = [r if r == "raises" else h2f(r) for r in ans["results"]]
            for k, (a, b) in enumerate(zip(got, m_results)):
                if not same(a, b, calls[k]):
                    ctx.disagree("C04.row-result", case | {"call": k}, repr(a), repr(b))
                    break
            ip = [[f2h(float(x)) for x in r] for r in fit.parameters_history_list]
            il = [f2h(float(x)) for x in fit.log_likelihood_history_list]
            if ip != ans["hist_params"] or il != ans["hist_ll"]:
                ctx.disagree("C04.row-history", case, {"params": ip[:4], "ll": il[:4]}, {"params": ans["hist_params"][:4], "ll": ans["hist_ll"][:4]})
            # ---- oracle: the sentence with the flags this object shows
            eff = {"fom_is_ll": seen["fom_is_log_likelihood"] and not swarm, "chi": seen["convert_to_chi_squared"] or swarm,
                   "resample": h2f(seen["resample_bits"])}
            succ = []
            for k, c in enumerate(calls):
                exp = c04.plain_expected(eff, model, priors, {}, [], c["v"], c["o"])
                if exp == "raises":
                    if got[k] != "raises":
                        ctx.fail("C04-swallowed-exception", "a non-fit exception of the likelihood did not propagate", case | {"call": k}, repr(got[k]))
                    continue
                want, ok = exp
                if swarm and (not ok or want != want):
                    want, ok = -2.0 * eff["resample"], False
                if ok:
                    succ.append(c)
                if isinstance(got[k], str):
                    ctx.fail("C04-exception-escapes", "an exception escaped from the fitness call where a figure of merit or the resample value is due",
                             case | {"call": k}, got[k])
                elif not same(got[k], want, c):
                    ctx.fail("C04-wrong-fom", f"{name}: figure of merit is not ll (+ sum of log priors) (x -2) / the resample value",
                             case | {"call": k}, {"got": got[k], "want": want})
            keeps = seen["store_history"] and not swarm
            want_p = [[f2h(x) for x in c["v"]] for c in succ] if keeps else []
            want_l = [f2h(c["o"]) for c in succ] if keeps else []
            if (ip, il) != (want_p, want_l):
                alias = il == want_l and len(ip) == len(want_p)
                ctx.fail("C04-history-alias" if alias else "C04-history",
                         "history does not record exactly the successfully evaluated vectors with their likelihoods, in order", case,
                         {"got": ip[:4], "want": want_p[:4]})


def _fits(cls):
    """does the class (or an ancestor below NonLinearSearch) define a `_fit` of its own?"""
    from autofit.non_linear.search.abstract_search import NonLinearSearch
    for k in cls.__mro__:
        if k is NonLinearSearch:
            return False
        if "_fit" in vars(k):
            return True
    return False


def run_table(ctx):
    case = {"label": "table"}
    ans = ctx.lean.ask({"p": "C04", "kind": "table"})
    if "driver_error" in ans:
        ctx.disagree("driver", case, None, ans)
        return
    compiled = ans["rows"]
    try:
        live = tables_c04.extract(REPO)
    except tables_c04.Unsupported as e:
        ctx.disagree("C04.table-unreadable", case, str(e), None)
        live = None
    ctx.evaluations += 1
    if live is not None:
        # ---- A: compiled table == source table
        a = [{k: r[k] for k in ROW_KEYS} for r in compiled]
        b = [{k: r[k] for k in ROW_KEYS} for r in live["rows"]]
        if a != b:
            diff = [(x, y) for x, y in zip(a, b) if x != y][:2] or [(len(a), len(b))]
            ctx.disagree("C04.table", case, {"source": [d[1] for d in diff] if diff and isinstance(diff[0][0], dict) else diff},
                         {"compiled": [d[0] for d in diff] if diff and isinstance(diff[0][0], dict) else diff})
        d = ans["default"]
        dl = live["defaults"]
        if (d["fom_is_log_likelihood"], d["convert_to_chi_squared"], d["history"] == "on", d["resample_bits"]) != (
                dl["fom_is_log_likelihood"], dl["convert_to_chi_squared"], dl["store_history"], dl["resample_figure_of_merit"]):
            ctx.disagree("C04.table-defaults", case, dl, d)
        # ---- B: designated resample value / space, plain Python on the source rows
        for r in live["rows"]:
            ctx.hit("table-row:" + r["family"] + ":" + r["fitness_class"])
            for cl, text in plain_designated(r):
                ctx.fail(cl, text, {"label": "table", "search": r["name"]}, r)
        # the model's derived columns agree with the plain restatement
        for r in compiled:
            if r["designated"] != (not plain_designated(r)):
                ctx.disagree("C04.table-designated", {"label": "table", "search": r["name"]}, not plain_designated(r), r["designated"])
            swarm = r["fitness_class"] == "pyswarms"
            rec = (-2.0 * h2f(r["resample_bits"])) if swarm else h2f(r["resample_bits"])
            if f2h(rec) != r["resample_received"]:
                ctx.disagree("C04.table-resample-received", {"label": "table", "search": r["name"]}, f2h(rec), r["resample_received"])
    run_rows(ctx, live)
