#!/usr/bin/env python
"""Entry point: run.py Cxx --tier quick|thorough [--replay path]

P: build the Lean library for this property, audit sources and axioms
C: correspondence (model driver vs implementation) on corpus + generated cases
O: property oracle on the implementation's outputs
Verdict and evidence: see common.Ctx.finish and DESIGN.md §0."""
import argparse
import importlib
import json
import os
import re
import subprocess
import sys
import time
import traceback
from pathlib import Path

HERE = Path(__file__).resolve().parent
sys.path.insert(0, str(HERE))

import common  # noqa: E402

ALLOWED_AXIOMS = {"propext", "Classical.choice", "Quot.sound"}
FORBIDDEN = re.compile(
    r"\b(sorry|admit|native_decide|bv_decide|implemented_by|unsafe)\b|^axiom\s|maxHeartbeats\s+0\b",
    re.M,
)


def strip_comments(src: str) -> str:
    # remove nested block comments and line comments
    out = []
    i = 0
    depth = 0
    n = len(src)
    while i < n:
        if src.startswith("/-", i):
            depth += 1
            i += 2
        elif depth and src.startswith("-/", i):
            depth -= 1
            i += 2
        elif depth:
            i += 1
        elif src.startswith("--", i):
            while i < n and src[i] != "\n":
                i += 1
        else:
            out.append(src[i])
            i += 1
    return "".join(out)


def theorem_names(path: Path):
    src = strip_comments(path.read_text())
    ns = []
    names = []
    for line in src.splitlines():
        m = re.match(r"\s*namespace\s+(\S+)", line)
        if m:
            ns.append(m.group(1))
            continue
        m = re.match(r"\s*end\s+(\S+)", line)
        if m and ns and ns[-1] == m.group(1):
            ns.pop()
            continue
        m = re.match(r"\s*(?:@\[[^\]]*\]\s*)?(?:private\s+|protected\s+)?theorem\s+([^\s:({\[]+)", line)
        if m:
            names.append(".".join(ns + [m.group(1)]))
    n_examples = len(re.findall(r"^\s*example\b", src, re.M))
    return names, n_examples


def proof_check(prop: str, tier: str) -> dict:
    """P of DESIGN §0"""
    lean = common.LEAN_DIR
    res = {
        "ok": False,
        "obligations": 0,
        "discharged": 0,
        "checker_cmd": f"cd lean && lake build AFModel AFDriver AFProofs.{prop} && lake env lean <generated #print axioms audit>",
        "trusted_base": [
            "Lean 4.33.0 kernel",
            "axioms: propext, Classical.choice, Quot.sound only (audited with #print axioms on every property theorem)",
            "hand-written model tied to /repo by the differential correspondence harness (harness/*.py)",
        ],
    }
    pf = lean / "AFProofs" / f"{prop}.lean"
    if not pf.exists():
        res["why"] = f"AFProofs/{prop}.lean missing"
        return res
    # regenerated tables (translator part), if this property has an extractor
    gen = HERE / f"tables_{prop.lower()}.py"
    if gen.exists():
        p = subprocess.run([sys.executable, str(gen)], capture_output=True, text=True, cwd=HERE)
        if p.returncode != 0:
            res["why"] = "table extraction failed: " + (p.stdout + p.stderr)[-1500:]
            return res
    ok, out = common.lake_build(["AFModel", "AFDriver", f"AFProofs.{prop}"])
    if not ok:
        res["why"] = "lake build failed: " + out[-3000:]
        names, nex = theorem_names(pf)
        res["obligations"] = len(names) + nex
        return res
    # source audit over everything the property's proof file imports from this project
    bad = []
    for f in list((lean / "AFModel").rglob("*.lean")) + list((lean / "AFProofs").rglob("*.lean")) + list((lean / "AFDriver").rglob("*.lean")):
        src = strip_comments(f.read_text())
        for m in FORBIDDEN.finditer(src):
            bad.append(f"{f.relative_to(lean)}: {m.group(0).strip()}")
    if bad:
        res["why"] = "forbidden construct: " + "; ".join(bad[:5])
        return res
    names, nex = theorem_names(pf)
    res["obligations"] = len(names) + nex
    res["theorems"] = names
    audit = lean / ".lake" / f"Audit_{prop}.lean"
    audit.parent.mkdir(exist_ok=True)
    audit.write_text(
        f"import AFProofs.{prop}\n" + "".join(f"#print axioms {n}\n" for n in names)
    )
    p = subprocess.run(
        ["lake", "env", "lean", str(audit)], cwd=lean, capture_output=True, text=True
    )
    text = p.stdout + p.stderr
    if p.returncode != 0:
        res["why"] = "axiom audit failed: " + text[-2000:]
        return res
    axioms = set()
    discharged = nex
    blocks = re.split(r"(?=^')", text, flags=re.M)
    per = {}
    for b in blocks:
        m = re.match(r"'([^']+)' (depends on axioms: \[([^\]]*)\]|does not depend on any axioms)", b, re.S)
        if not m:
            continue
        used = set(a.strip() for a in (m.group(3) or "").replace("\n", " ").split(",") if a.strip())
        per[m.group(1)] = sorted(used)
        axioms |= used
        if used <= ALLOWED_AXIOMS:
            discharged += 1
    res["axioms"] = sorted(axioms)
    res["discharged"] = discharged
    missing = [n for n in names if n not in per]
    if missing:
        res["why"] = f"no axiom report for {missing[:5]}"
        return res
    if not axioms <= ALLOWED_AXIOMS:
        res["why"] = f"axioms outside the trusted base: {sorted(axioms - ALLOWED_AXIOMS)}"
        return res
    if tier == "thorough" and os.environ.get("VERIF_LEANCHECKER", "1") == "1":
        p = subprocess.run(
            ["lake", "env", "leanchecker", f"AFProofs.{prop}"],
            cwd=lean, capture_output=True, text=True,
        )
        res["leanchecker"] = "ok" if p.returncode == 0 else (p.stdout + p.stderr)[-800:]
        if p.returncode != 0:
            res["why"] = "leanchecker rejected the compiled proofs"
            return res
    res["ok"] = res["discharged"] == res["obligations"] and res["obligations"] > 0
    if not res["ok"]:
        res["why"] = "not every obligation discharged"
    return res


def main():
    ap = argparse.ArgumentParser()
    ap.add_argument("prop")
    ap.add_argument("--tier", default=os.environ.get("VERIF_TIER", "quick"))
    ap.add_argument("--replay", default=None)
    ap.add_argument("--no-proof", action="store_true", help="development only: skip P")
    a = ap.parse_args()
    prop = a.prop.upper()
    tier = a.tier if a.tier in ("quick", "thorough") else "quick"
    seed = int(os.environ.get("VERIF_SEED", "0") or 0)
    ctx = common.Ctx(prop, tier, seed)
    try:
        if not a.no_proof:
            ctx.proof = proof_check(prop, tier)
        else:
            common.lake_build(["AFModel", "AFDriver"])
        common.setup_repo()
        mod = importlib.import_module(prop.lower())
        if a.replay:
            mod.replay(ctx, json.loads(Path(a.replay).read_text()))
        else:
            mod.run(ctx)
        if os.environ.get('VERIF_DEBUG'):
            common.debug_dump(ctx)
        rc = ctx.finish()
    except common.LeanError as e:
        print(f"infrastructure failure (model driver): {e}", file=sys.stderr)
        sys.exit(2)
    except subprocess.TimeoutExpired as e:
        print(f"timeout: {e}", file=sys.stderr)
        sys.exit(2)
    except Exception:  # noqa: the harness could not be carried through on this tree
        import traceback
        tb = traceback.format_exc()
        print(tb, file=sys.stderr)
        repo = (os.environ.get("VERIF_REPO") or "/repo")
        etype = sys.exc_info()[0]
        if issubclass(etype, (OSError, MemoryError, ImportError)) and f'File "{repo}/' not in tb:
            # resources / environment, nothing of the implementation on the stack: the machinery itself
            sys.exit(2)
        # the implementation raised - or answered with something of another shape than every earlier run of this
        # harness met (the exception is then raised by harness code reading the answer) - in a step the
        # correspondence depends on: the correspondence no longer checks; no property-level failing input isolated
        where = "the implementation raised" if f'File "{repo}/' in tb else "an answer of the implementation could not be read by the harness"
        ctx.disagree(f"harness: {where} in a step every case depends on",
                     {"traceback": tb[-4000:]}, "raised", None)
        rc = ctx.finish()
    sys.exit(rc)


if __name__ == "__main__":
    main()
