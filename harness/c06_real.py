"""Real-code side of the C06 check: file-system tracer, crash-state synthesis, fit runner.

* `Tracer` — one `sys.addaudithook` hook for the whole process (hooks cannot be removed, so it has an
  on/off switch).  While on, every Python-level mutation of the file system below `root` (open for
  writing, remove, rename/replace, mkdir, rmdir, rmtree and its inner unlinks) is recorded, and the
  content of `root` *before* the mutation is snapshotted.  A snapshot read back through the OS is
  exactly what a process kill (no power failure) at that point would leave behind: data still sitting
  in a Python-level write buffer is lost in both cases.
* partial writes are synthesised from two neighbouring snapshots (file truncated to empty / a strict
  prefix of its final content).
* `World` owns a scratch config + output directory for one settings combination and runs the real
  `search.fit` in-process on a materialised state.
"""
import contextlib
import hashlib
import io
import json
import os
import re
import shutil
import sys
import zipfile
from pathlib import Path

MUTATING = {
    "os.remove",
    "os.rename",
    "os.replace",
    "os.mkdir",
    "os.rmdir",
    "shutil.rmtree",
    "os.truncate",
    "os.symlink",
    "os.link",
}


class Snapshot:
    """files: {relative path: bytes}, dirs: set of relative directory paths"""

    __slots__ = ("files", "dirs")

    def __init__(self, files=None, dirs=None):
        self.files = dict(files or {})
        self.dirs = set(dirs or ())

    @staticmethod
    def take(root: str) -> "Snapshot":
        s = Snapshot()
        if not os.path.isdir(root):
            return s
        n = len(root) + 1
        for base, dirs, files in os.walk(root):
            rel = base[n:]
            if rel:
                s.dirs.add(rel)
            for f in files:
                p = os.path.join(base, f)
                try:
                    with io.open(p, "rb") as fh:
                        s.files[os.path.join(rel, f) if rel else f] = fh.read()
                except OSError:
                    pass
        return s

    def copy(self) -> "Snapshot":
        return Snapshot(self.files, self.dirs)

    def materialise(self, root: str):
        shutil.rmtree(root, ignore_errors=True)
        os.makedirs(root, exist_ok=True)
        for d in sorted(self.dirs):
            os.makedirs(os.path.join(root, d), exist_ok=True)
        for rel, data in self.files.items():
            p = os.path.join(root, rel)
            os.makedirs(os.path.dirname(p), exist_ok=True)
            with io.open(p, "wb") as fh:
                fh.write(data)

    def key(self):
        h = hashlib.sha1()
        for rel in sorted(self.files):
            h.update(rel.encode())
            h.update(b"\0")
            h.update(hashlib.sha1(self.files[rel]).digest())
        for d in sorted(self.dirs):
            h.update(b"d" + d.encode())
        return h.hexdigest()


class Tracer:
    _installed = None

    def __init__(self):
        self.on = False
        self.busy = False
        self.root = None
        self.events = []  # (kind, relpath-or-name, extra)
        self.snaps = []  # snapshot BEFORE event i
        self.want_snaps = True
        self.kill_at = None  # real-kill mode (subprocess only): os._exit at this event index
        self.in_rmtree = False

    @classmethod
    def get(cls) -> "Tracer":
        if cls._installed is None:
            cls._installed = Tracer()
            sys.addaudithook(cls._installed._hook)
        return cls._installed

    def start(self, root: str, want_snaps=True):
        self.root = os.path.realpath(root)
        self.events = []
        self.snaps = []
        self.want_snaps = want_snaps
        self.in_rmtree = False
        self.on = True

    def stop(self):
        self.on = False
        final = Snapshot.take(self.root)
        return self.events, self.snaps, final

    def _rel(self, p):
        if isinstance(p, bytes):
            p = os.fsdecode(p)
        elif isinstance(p, os.PathLike):
            p = os.fspath(p)
        if not isinstance(p, str):
            return None
        if not os.path.isabs(p):
            p = os.path.abspath(p)
        if p == self.root:
            return ""
        if p.startswith(self.root + os.sep):
            return p[len(self.root) + 1 :]
        return None

    def _hook(self, ev, args):
        if not self.on or self.busy:
            return
        rec = None
        if ev == "open":
            p, mode, _flags = args
            if not mode or not any(c in mode for c in "wax"):
                return
            rel = self._rel(p)
            if rel is None:
                return
            rec = ("open", rel, "a" if "a" in mode else "w")
            self.in_rmtree = False
        elif ev in MUTATING:
            if ev in ("os.remove", "os.rmdir") and len(args) > 1 and args[1] not in (-1, None):
                if not self.in_rmtree:
                    return
                rec = (ev, "?/" + str(os.fsdecode(args[0]) if isinstance(args[0], bytes) else args[0]), "in-rmtree")
            else:
                rels = [self._rel(a) for a in args[:2]]
                if all(r is None for r in rels):
                    return
                if ev == "os.mkdir":
                    self.busy = True
                    try:
                        exists = os.path.isdir(args[0])
                    finally:
                        self.busy = False
                    if exists:
                        return
                if ev == "os.rmdir" and self.in_rmtree:
                    rec = (ev, rels[0], "in-rmtree")
                else:
                    rec = (ev, rels[0] if rels[0] is not None else rels[1], rels[1] if ev in ("os.rename", "os.replace") else None)
                    self.in_rmtree = ev == "shutil.rmtree"
        else:
            return
        if self.kill_at is not None and len(self.events) == self.kill_at:
            os._exit(77)
        self.busy = True
        try:
            if self.want_snaps:
                self.snaps.append(Snapshot.take(self.root))
            self.events.append(rec)
        finally:
            self.busy = False


# ---------------------------------------------------------------------------------------------
# user-level model / analysis


class Gauss:
    def __init__(self, centre=0.0, sigma=1.0):
        self.centre = centre
        self.sigma = sigma


_ANALYSIS = None


def _analysis_cls():
    """the analysis class, made once and reachable by name from this module (a sampler that checkpoints its
    likelihood pickles the analysis)"""
    global _ANALYSIS, CountingAnalysis
    if _ANALYSIS is not None:
        return _ANALYSIS
    import autofit as af

    class CountingAnalysis(af.Analysis):
        def __init__(self):
            self.calls = 0

        def log_likelihood_function(self, instance):
            self.calls += 1
            x, y = instance.centre, instance.sigma
            return -((x - 0.3) ** 4 + (y - 3.1) ** 2 + 0.5 * (x - 0.3) ** 2 * (y - 3.1) ** 2) - 0.25

    CountingAnalysis.__qualname__ = "CountingAnalysis"
    _ANALYSIS = CountingAnalysis
    return CountingAnalysis


def make_model(prior="uniform"):
    import autofit as af

    m = af.Model(Gauss)
    if prior == "gauss":
        # log prior != 0: the figure of merit of Drawer / BFGS (a posterior) differs from the likelihood
        m.centre = af.GaussianPrior(mean=0.5, sigma=0.4)
    else:
        m.centre = af.UniformPrior(0.0, 2.0)
    m.sigma = af.UniformPrior(0.0, 4.0)
    return m


SEARCHES = ("drawer", "lbfgs", "dynesty")


def make_search(kind: str):
    import autofit as af

    if kind == "drawer":
        return af.Drawer(name="fit", total_draws=6)
    if kind == "lbfgs":
        return af.LBFGS(name="fit", iterations_per_update=3)
    if kind == "lbfgs_cap":
        # iteration budget = a whole number of checkpoint intervals, used up before convergence: the last
        # checkpoint already holds every iteration
        return af.LBFGS(name="fit", iterations_per_update=2, maxiter=4)
    if kind == "dynesty":
        return af.DynestyStatic(name="fit", nlive=20, maxcall=260, iterations_per_update=100, number_of_cores=1)
    if kind == "dynesty_x1":
        # without the (one-process) dynesty pool: the other branch of the sampler's construction and of its resume
        return af.DynestyStatic(name="fit", nlive=20, maxcall=260, iterations_per_update=100, number_of_cores=1, force_x1_cpu=True)
    raise ValueError(kind)


def _set_yaml(path: Path, key: str, val: str):
    t = path.read_text()
    t2, n = re.subn(r"(?m)^(\s*" + re.escape(key) + r"\s*:\s*)[^\s#]+", lambda m: m.group(1) + val, t)
    if n == 0:
        raise RuntimeError(f"config key {key} not found in {path}")
    path.write_text(t2)


def _set_yaml_all(path: Path, key: str, val: str):
    t = path.read_text()
    t2 = re.sub(r"(?m)^(\s*" + re.escape(key) + r"\s*:\s*)[^\s#]+", lambda m: m.group(1) + val, t)
    path.write_text(t2)


class World:
    """a scratch config + output root for one output-settings combination"""

    def __init__(self, repo: Path, base: Path, remove_files: bool, samples_csv: bool, keep_internal: bool):
        self.settings = {"remove_files": remove_files, "samples_csv": samples_csv, "keep_internal": keep_internal}
        tag = f"w{int(remove_files)}{int(samples_csv)}{int(keep_internal)}"
        self.cfg = base / f"cfg_{tag}"
        self.out = base / f"out_{tag}"
        if not self.cfg.exists():
            shutil.copytree(repo / "autofit" / "config", self.cfg)
            ps = self.cfg / "visualize" / "plots_search.yaml"
            for k in ("subplot_parameters", "log_likelihood_vs_iteration", "corner_anesthetic", "corner_cornerpy"):
                _set_yaml(ps, k, "false")
            for y in ("mle.yaml", "nest.yaml"):
                _set_yaml_all(self.cfg / "non_linear" / y, "silence", "true")
            g = self.cfg / "general.yaml"
            _set_yaml(g, "remove_files", "true" if remove_files else "false")
            _set_yaml(g, "samples_to_csv", "true" if samples_csv else "false")
            _set_yaml(self.cfg / "output.yaml", "search_internal", "true" if keep_internal else "false")
        self.out.mkdir(exist_ok=True)
        self.root = os.path.realpath(self.out)

    def activate(self):
        from autoconf import conf

        conf.instance.push(new_path=str(self.cfg), output_path=str(self.out))

    # -- one call of the real `fit`
    def run_fit(self, kind: str, start: Snapshot, trace=True, prior="uniform"):
        """materialise `start`, run the real fit once; returns dict(outcome, calls, result view,
        events, snaps, final)"""
        self.activate()
        start.materialise(self.root)
        tr = Tracer.get()
        analysis = _analysis_cls()()
        with open(os.devnull, "w") as devnull, contextlib.redirect_stdout(devnull):
            search = make_search(kind)
            model = make_model(prior)
        out = {"outcome": "ok", "error": None, "etype": None}
        tr.start(self.root, want_snaps=trace)
        try:
            with open(os.devnull, "w") as devnull, contextlib.redirect_stdout(devnull), contextlib.redirect_stderr(devnull):
                result = search.fit(model=model, analysis=analysis)
            out["view"] = result_view(result)
        except Exception as e:  # the fit raised: the property's "terminates normally" fails
            out["outcome"] = "raises"
            out["etype"] = type(e).__name__
            out["error"] = f"{type(e).__name__}: {str(e).strip()[:160]}"
            out["view"] = None
        finally:
            events, snaps, final = tr.stop()
            close_log_handlers()
        out.update(calls=analysis.calls, events=events, snaps=snaps, final=final)
        return out


def close_log_handlers():
    """the search attaches a FileHandler on <output>/search.log; close it so the next case can
    remove the directory (the handler keeps the file open otherwise)"""
    import logging

    for name, lg in list(logging.Logger.manager.loggerDict.items()):
        if isinstance(lg, logging.Logger):
            for h in list(lg.handlers):
                if isinstance(h, logging.FileHandler):
                    try:
                        h.close()
                    except Exception:
                        pass
                    lg.removeHandler(h)


def canon_summary(ss):
    """the samples summary as the JSON document `save_samples_summary` writes (model excluded)"""
    from autoconf.dictable import to_dict

    model = ss.model
    ss.model = None
    try:
        d = to_dict(ss)
    finally:
        ss.model = model
    return json.loads(json.dumps(d))


def result_view(result):
    """what the property calls 'the same best fit, summary statistics and persisted samples'"""
    ss = result.samples_summary
    mls = ss.max_log_likelihood_sample
    view = {
        "best_ll": float(mls.log_likelihood),
        "best_params": sorted((str(k if isinstance(k, str) else ".".join(k)), float(v)) for k, v in mls.kwargs.items()),
        "result_ll": float(result.log_likelihood),
        "summary": canon_summary(ss),
    }
    smp = result.samples
    if smp is None:
        view["samples"] = None
    else:
        model = ss.model
        view["samples"] = [
            [float(v) for v in s.parameter_lists_for_model(model)]
            + [float(s.log_likelihood), float(s.log_prior), float(s.weight)]
            for s in smp.sample_list
        ]
    return view


# ---------------------------------------------------------------------------------------------
# real kill (subprocess): `python c06_real.py <repo> <base> <kind> <prior> <rm> <csv> <keep> <k>`
# runs a fresh fit and dies with os._exit at the k-th traced mutation; used to validate that an
# in-process snapshot taken before mutation k is what a killed process leaves behind.


def _main(argv):
    import logging
    import warnings

    warnings.filterwarnings("ignore")
    logging.disable(logging.CRITICAL)
    repo, base, kind, prior = Path(argv[0]), Path(argv[1]), argv[2], argv[3]
    rm, cs, ki, k = (int(x) for x in argv[4:8])
    sys.path.insert(0, str(repo))
    w = World(repo, base, bool(rm), bool(cs), bool(ki))
    tr = Tracer.get()
    tr.kill_at = k
    w.run_fit(kind, Snapshot(), trace=False, prior=prior)
    os._exit(0)


if __name__ == "__main__":
    _main(sys.argv[1:])
