"""User classes for the C01 construction check (`Model(cls, **kwargs)` from the class signature).

Constructors store their arguments under the same names (the assumption of the Lean model). Kinds of
constructor argument covered beyond harness/vlib.py: `Tuple[...]` annotation, `Optional[...]`
annotation, no default, `*args` / `**kwargs` / keyword-only arguments (not model arguments), nested
annotated classes two levels deep, a tuple with more than 100 members."""
from typing import Optional, Tuple

import vlib


class Ann:
    def __init__(self, xy: Tuple[float, float, float], w, opt: Optional[float] = None, *args, flag=True, **kwargs):
        self.xy = xy
        self.w = w
        self.opt = opt


class Sub:
    def __init__(self, first: vlib.T2, second: Ann, s=0.0, tag="lbl"):
        self.first = first
        self.second = second
        self.s = s
        self.tag = tag


class Wide:
    def __init__(self, v=(0.0,) * 101, e: float = 1.0):
        self.v = v
        self.e = e


class Top:
    def __init__(self, sub: Sub, t=(0.0, 0.0, 0.0), u=2):
        self.sub = sub
        self.t = t
        self.u = u


CLASSES = {c.__name__: c for c in (Ann, Sub, Wide, Top)}
