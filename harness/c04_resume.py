"""C04, resume part: `Fitness(..., paths=...)` runs `check_log_likelihood` while the object is built.

A stand-in `paths` offers a stored samples summary (none / one without a best sample / a best sample with a stored
log likelihood and parameters); test mode and the configuration switch are varied; the scripted likelihood gives the
outcome of the re-evaluation. Compared with the model's `constructAndRun` (AFModel/ResumeCheck.lean): whether the
constructor returns, raises `SearchException` or lets another exception through, whether the likelihood was evaluated,
and - when the object exists - every figure of merit and both histories of a following call sequence.
Oracle (plain Python): it raises `SearchException` exactly when switched on, a stored sample the model accepts exists and
the recomputed value is NaN or fails `|old - new| <= 1e-8 + 1e-5 |new|` (equal infinities pass); an object built with
`paths` answers exactly as one built without, and the check's own evaluation is not in the history."""
import os
import random
from unittest import mock

import numpy as np

from common import f2h, h2f

from autofit import exc
from autofit.non_linear import fitness as fitness_module
from autofit.non_linear.fitness import Fitness


class _Sample:
    def __init__(self, ll, params):
        self.log_likelihood = ll
        self._params = params

    def parameter_lists_for_model(self, model):
        return list(self._params)


class _Summary:
    def __init__(self, sample):
        if sample is not None:
            self.max_log_likelihood_sample = sample


class _Paths:
    def __init__(self, stored):
        self.stored = stored
        self.loads = 0

    def load_samples_summary(self):
        self.loads += 1
        if self.stored["kind"] == "none":
            raise FileNotFoundError("samples_summary.json")
        if self.stored["kind"] == "nosample":
            return _Summary(None)
        return _Summary(_Sample(self.stored["ll"], self.stored["params"]))


class _Conf:
    def __init__(self, on):
        self.instance = {"general": {"test": {"check_likelihood_function": on}}}


def plain_close(a, b):
    if a != a or b != b:
        return False
    if abs(a) == float("inf") or abs(b) == float("inf"):
        return a == b
    return abs(a - b) <= 1e-8 + 1e-5 * abs(b)


def gen_paths(rng, calls, n):
    r = rng.random()
    if r < 0.08:
        stored = {"kind": "none"}
    elif r < 0.14:
        stored = {"kind": "nosample"}
    else:
        base = rng.choice(calls)["v"] if calls else [0.5] * n
        params = list(base) if rng.random() < 0.9 else list(base)[:-1]
        stored = {"kind": "sample", "ll": rng.choice([rng.uniform(-1e3, 10.0), rng.uniform(-5, 5), 0.0, float("-inf"), 1e300]), "params": params}
    o = None
    if stored["kind"] == "sample":
        old = stored["ll"]
        r = rng.random()
        if r < 0.2:
            o = old
        elif r < 0.7 and abs(old) != float("inf"):
            # on both sides of the threshold |old-new| = 1e-8 + 1e-5 |new|
            d = (1e-8 + 1e-5 * abs(old)) * rng.choice([0.5, 0.99, 0.999999, 1.000001, 1.01, 2.0]) * rng.choice([-1, 1])
            o = old + d
        elif r < 0.78:
            o = rng.choice([float("inf"), float("-inf"), rng.uniform(-1e3, 10.0)])
        elif r < 0.86:
            o = "nan"
        elif r < 0.93:
            o = "fit"
        else:
            o = "other"
    else:
        o = rng.uniform(-5, 5)
    return {"test_mode": rng.random() < 0.15, "cfg_on": rng.random() < 0.85, "stored": stored, "o": o}


def resume_clause(ctx, c04, model, priors, H, prog_asserts, req, cfg, calls, case, spec=None):
    rng = random.Random(f"C04-resume-{ctx.seed}-{ctx.evaluations}")
    n = len(priors)
    paths_spec = spec if spec is not None else gen_paths(rng, calls, n)
    case["spec"]["resume"] = paths_spec   # a replay of this case repeats the same resume state
    st = paths_spec["stored"]
    wire_paths = {"test_mode": paths_spec["test_mode"], "cfg_on": paths_spec["cfg_on"], "o": c04.wire_outcome(paths_spec["o"]),
                  "stored": {"kind": st["kind"]} | ({"ll": f2h(st["ll"]), "params": [f2h(x) for x in st["params"]]} if st["kind"] == "sample" else {})}
    ans = ctx.lean.ask(req | {"kind": "resume", "paths": wire_paths, "pyswarms": False})
    if "driver_error" in ans:
        ctx.disagree("driver", case, None, ans)
        return
    ctx.evaluations += 1

    def build(with_paths):
        analysis = c04.ScriptedAnalysis()
        analysis.next = paths_spec["o"]
        paths = _Paths(st) if with_paths else None
        kw = dict(model=model, analysis=analysis, fom_is_log_likelihood=cfg["fom_is_ll"], resample_figure_of_merit=cfg["resample"],
                  convert_to_chi_squared=cfg["chi"], store_history=cfg["history"])
        old_env = os.environ.get("PYAUTOFIT_TEST_MODE")
        try:
            if paths_spec["test_mode"]:
                os.environ["PYAUTOFIT_TEST_MODE"] = "1"
            else:
                os.environ.pop("PYAUTOFIT_TEST_MODE", None)
            with mock.patch.object(fitness_module, "conf", _Conf(paths_spec["cfg_on"])):
                try:
                    fit = Fitness(paths=paths, **kw)
                    return "passes", fit, analysis
                except exc.SearchException:
                    return "searchException", None, analysis
                except Exception:  # noqa
                    return "escapes", None, analysis
        finally:
            if old_env is None:
                os.environ.pop("PYAUTOFIT_TEST_MODE", None)
            else:
                os.environ["PYAUTOFIT_TEST_MODE"] = old_env

    def drive(fit, analysis):
        out = []
        for c in calls:
            analysis.next = c["o"]
            try:
                out.append(f2h(float(fit(np.array(c["v"], dtype=float)))))
            except Exception as e:
                out.append("raises" if not isinstance(e, exc.FitException) else "raises-fit")
        return out, [[f2h(float(x)) for x in row] for row in fit.parameters_history_list], [f2h(float(x)) for x in fit.log_likelihood_history_list]

    got, fit, analysis = build(True)
    evaluated = analysis.calls == 1
    ctx.hit("resume:" + got)
    # ---- correspondence
    if got != ans["construct"]:
        ctx.disagree("C04.resume-construct", case, got, ans["construct"])
    if evaluated != ans["evaluates"]:
        ctx.disagree("C04.resume-evaluates", case, evaluated, ans["evaluates"])
    # ---- oracle: raises exactly when it should
    try:
        gate = c04.plain_expected({"fom_is_ll": True, "chi": False, "resample": 0.0}, model, priors, H, prog_asserts, st["params"], 0.0) if st["kind"] == "sample" else None
    except Exception:
        ctx.hit("oracle-undefined")
        return
    on = (not paths_spec["test_mode"]) and paths_spec["cfg_on"] and st["kind"] == "sample"
    if not on:
        want = "passes"
    elif gate == "raises" or gate[1] is False:
        want = "escapes"
    elif paths_spec["o"] in ("fit", "other"):
        want = "escapes"
    elif paths_spec["o"] == "nan":
        want = "searchException"
    else:
        want = "passes" if plain_close(st["ll"], paths_spec["o"]) else "searchException"
    if got != want:
        ctx.fail("C04-resume-check", "check_log_likelihood does not raise exactly when the stored and the recomputed log likelihood differ "
                 "by more than the threshold", case, {"got": got, "want": want})
    if fit is None:
        return
    # ---- the check alters nothing
    res, hp, hl = drive(fit, analysis)
    got0, fit0, analysis0 = build(False)
    res0, hp0, hl0 = drive(fit0, analysis0)
    if (res, hp, hl) != (res0, hp0, hl0):
        ctx.fail("C04-resume-alters", "a fitness object built with paths (likelihood check on resume) answers differently from one built without",
                 case, {"with": [res[:4], hp[:3], hl[:3]], "without": [res0[:4], hp0[:3], hl0[:3]]})
    if "results" in ans:
        m = [r if r == "raises" else r for r in ans["results"]]
        ulps_loose = any(r not in ("raises", "raises-fit") for r in res) and not cfg["fom_is_ll"]
        for k, (a, b) in enumerate(zip(res, m)):
            if a == b:
                continue
            if a in ("raises", "raises-fit") or b == "raises" or not ulps_loose or not c04.close(h2f(a), h2f(b), ulps=8):
                # values are compared exactly in likelihood space; posterior sums carry the tolerance of the main clause
                if not (ulps_loose and a not in ("raises", "raises-fit") and b != "raises" and abs(h2f(a) - h2f(b)) <= 1e-9 * max(abs(h2f(a)), 1.0)):
                    ctx.disagree("C04.resume-result", case | {"call": k}, a, b)
                    break
        if hp != ans["hist_params"] or hl != ans["hist_ll"]:
            ctx.disagree("C04.resume-history", case, {"params": hp[:4], "ll": hl[:4]}, {"params": ans["hist_params"][:4], "ll": ans["hist_ll"][:4]})
